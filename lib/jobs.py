"""Per-property verification plans: which TLC configurations to run and which
harness family replays their CASE lines.  One function per property; quick and
thorough tiers differ only in constants / families."""


# every model switch at its "code as it is" value; a plan or the selftest overrides what it needs
MODULE_DEFAULTS = {
    "MC_Eval": {"DEV_MissingDynAnchorFails": "FALSE", "DEV_FalsyBesideRef": "FALSE", "MUT_Eval": '"none"'},
    "MC_Codec": {"DEV_OmitEmptyAssertingLists": "FALSE", "DEV_CaseFoldKeys": "FALSE", "MUT_Codec": '"none"'},
    "MC_Defaults": {"DEV_EmptyContainerDefault": "FALSE", "MUT_Defaults": '"none"'},
    "MC_Clone": {"MUT_SkipField": '"none"', "MUT_Clone": '"none"'},
    "MC_Infer": {"CheckKnown": "FALSE", "LegacyNull": "FALSE", "MUT_Infer": '"none"'},
    "MC_Resolve": {"DEV_CacheHitNoInfoMerge": "FALSE", "MUT_CacheAfterRefs": "FALSE", "MUT_Resolver": '"none"', "CheckKnown": "FALSE"},
    "MC_Reps": {"DEV_EqualKindStrict": "FALSE", "DEV_NumberEqualsString": "FALSE", "DEV_JsonNumberIsString": "FALSE", "MUT_ScanLastOnly": "FALSE"},
    "MC_Pointer": {"DEV_AtoiIndex": "FALSE", "MUT_UnescapeOrder": "FALSE", "DEV_NilTarget": "FALSE", "MUT_Pointer": '"none"'},
}


def tlc(name, module, consts=None, invariants=(), properties=(), workers=4, timeout=2400, **kw):
    c = dict(MODULE_DEFAULTS.get(module, {}))
    c.update(consts or {})
    d = dict(name=name, module=module, consts=c, invariants=list(invariants), properties=list(properties),
             workers=workers, timeout=timeout, spec_formula="Spec")
    d.update(kw)
    return d


def q(s):
    return '"%s"' % s


EVAL_INV = ["Wellformed", "Refines", "Emit"]
EVAL_ASSUME = ["TLC", "pools.py tables (python fractions / re)", "encoding/json decoding of instances",
               "Go regexp on the portable pattern subset"]
EVAL_RULE = ("universes enumerated exhaustively by TLC from the MC_Eval families %s; a case is one schema document "
             "(universe) with its L0 verdict vector over the family's instance pool and the L0 reference table (every "
             "$ref/$dynamicRef of every needed document -> designated subschema, dynamic or not), which the replay compares "
             "with the real Resolved object by object (hooks VerifRefTarget / VerifDynamicRefInitial); every instance is "
             "validated as written, with 0 spelled -0, and once more in reverse order on the same Resolved; non-trivial = "
             "the vector contains both valid and invalid instances; distinct by document text")


def eval_jobs(prefix, fams, dr, workers=4):
    return [tlc("%s_%s_k%d" % (prefix, f, k), "MC_Eval", {"Family": q(f), "K": k, "Dr": q(dr)}, EVAL_INV, workers=workers)
            for f, k in fams]


def eval_plan(prefix, fams2020, famsd7, workers=4, parallel=4):
    jobs = eval_jobs(prefix, fams2020, "2020", workers) + eval_jobs(prefix, famsd7, "d7", workers)
    return dict(
        tlc=jobs, parallel=parallel,
        replay=[dict(name=prefix + "_replay", family="eval", inputs=[j["name"] for j in jobs])],
        rule=EVAL_RULE % ", ".join(f for f, _ in fams2020 + famsd7),
        exhaustive=True, assumptions=EVAL_ASSUME)


TRACE_RULE = (" Code -> spec: every Validate call on the repository's own test inputs (testdata/%s, with their remote "
              "documents) and on %d random schemas x 6 instances (Go driver over the whole vocabulary, depth <= 4, seeded by "
              "VERIF_SEED) is recorded through the verif frame hook; the documents are abstracted with per-batch pools and TLC "
              "(Trace.tla) accepts the trace only if the verdict of EVERY frame - not just the root - is the L0 verdict for that "
              "subschema, instance and dynamic scope (the scope is rebuilt from the nesting of the events, never read from the "
              "log); the official expected result guards L0 itself (disagreement = spec doubt = exit 2).")


def with_traces(plan, suite, n):
    plan["traces"] = [dict(name=suite, mode=suite), dict(name="random", mode="random", n=n)]
    plan["rule"] += TRACE_RULE % ("draft2020-12" if suite == "suite2020" else "draft7", n)
    plan["assumptions"] = plan["assumptions"] + ["frame hook placement", "harness abstraction of real documents (checked by the official expectations)"]
    return plan


def plan_C01(tier, seed):
    if tier == "quick":
        return with_traces(eval_plan("c01", [("F1", 2), ("F2", 2), ("F3", 2), ("F4", 1), ("F5", 1), ("F6", 1), ("W", 1), ("U1", 1), ("U2", 1)], []),
                           "suite2020", 300)
    return with_traces(eval_plan("c01", [("F1", 3), ("F2", 3), ("F3", 3), ("F4", 2), ("F5", 1), ("F6", 1), ("W", 1), ("U1", 1), ("U2", 1)], [],
                                 workers=5, parallel=3), "suite2020", 3000)


def with_lifecycle(plan, prefix, tier):
    """The draft a $schema-less loaded document is read under is the root's, whatever was resolved before: all
    histories of Lifecycle.tla over a shared Loader document replayed into the code."""
    life = tlc(prefix + "_lifecycle", "MC_Lifecycle", {"DEV_MutateLoadedDoc": "FALSE", "MaxHist": 3 if tier == "quick" else 4},
               ["Deterministic", "Pure", "Emit"], workers=4)
    plan["tlc"].append(life)
    plan["replay"].append(dict(name=prefix + "_history", family="history", inputs=[life["name"]], kinds=["history"]))
    plan["rule"] += (" Histories: Lifecycle.tla enumerates every sequence of Resolve/Validate/Marshal calls (length 3, thorough 4) over a "
                     "draft-07 root and a 2020-12 root that share ONE $schema-less remote document object through a memoising "
                     "Loader; the draft the document is read under (visible as the Resolve result and the verdicts) must be the "
                     "current root's, whatever was resolved earlier.")
    return plan


def plan_C02(tier, seed):
    if tier == "quick":
        return with_lifecycle(with_traces(eval_plan("c02", [], [("G1", 2), ("G2", 2), ("G3", 1), ("G4", 1), ("G5", 1)]), "suite7", 300), "c02", tier)
    return with_lifecycle(with_traces(eval_plan("c02", [], [("G1", 3), ("G2", 3), ("G3", 1), ("G4", 1), ("G5", 1)], workers=5, parallel=3),
                                      "suite7", 3000), "c02", tier)


def plan_C07(tier, seed):
    if tier == "quick":
        return with_traces(eval_plan("c07", [("U1", 1), ("U2", 1)], []), "suite2020", 300)
    return with_traces(eval_plan("c07", [("U1", 2), ("U2", 2)], [], workers=8, parallel=2), "suite2020", 3000)


def plan_C06(tier, seed):
    if tier == "quick":
        return with_traces(eval_plan("c06", [("DY", 1), ("DY", 2), ("FK", 1)], [], workers=5, parallel=3), "suite2020", 100)
    return with_traces(eval_plan("c06", [("DY", 2), ("DY", 3), ("FK", 2)], [], workers=8, parallel=2), "suite2020", 500)


RES_INV = ["NoPanic", "AtMostOnce", "NeverLoadsKnown", "NoReentry", "RefinesResolve", "Emit"]


def res_jobs(prefix, fams, workers=6):
    return [tlc("%s_%s_k%d" % (prefix, f, k), "MC_Resolve",
                {"Family": q(f), "K": k, "DEV_CacheHitNoInfoMerge": "FALSE", "MUT_CacheAfterRefs": "FALSE"},
                RES_INV, ["Terminates"], workers=workers) for f, k in fams]


def plan_C03(tier, seed):
    fams = [("R1", 1), ("R2", 1), ("R3", 1)] if tier == "quick" else [("R1", 3), ("R2", 2), ("R3", 1)]
    jobs = res_jobs("c03", fams, workers=6 if tier == "quick" else 8)
    # pointer-fragment references (C17's universes are part of "every $ref reaches the designated subschema")
    pc = {"DEV_AtoiIndex": "FALSE", "MUT_UnescapeOrder": "FALSE", "K": 2 if tier == "quick" else 3}
    jobs += [tlc("c03_%s" % f, "MC_Pointer", dict(pc, Family=q(f)), inv, workers=4)
             for f, inv in (("P1", ["Designated", "PointerRefinesP1", "Emit"]), ("P2", ["PointerRefines", "Emit"]))]
    return dict(
        tlc=jobs, parallel=2,
        replay=[dict(name="c03_replay", family="eval", inputs=[j["name"] for j in jobs])],
        rule="reference topologies enumerated by TLC (MC_Resolve families R1: embedded resources x $id forms x referrer "
             "location x reference forms; R2: Loader documents in chains, diamonds, cycles, canonical aliases x all fault "
             "subsets x all visiting orders); a case is one universe with the L0 prediction (Resolve ok/err, verdict vector "
             "over uniquely marked targets, Loader call set); plus the pointer-fragment universes P1/P2 of MC_Pointer (every "
             "keyword x hostile key strings incl. '+', twins, anchors spelled like pointers; invalid pointers); non-trivial = Resolve error predicted, or the vector "
             "distinguishes targets; distinct by universe text",
        exhaustive=True,
        assumptions=["TLC", "net/url parsing of the generated URI texts", "harness Loader logs every call"])


REP_C = {"DEV_EqualKindStrict": "FALSE", "DEV_NumberEqualsString": "FALSE", "DEV_JsonNumberIsString": "FALSE", "MUT_ScanLastOnly": "FALSE"}


def rep_job(prefix, fam, k, inv, workers=6):
    c = dict(REP_C)
    c.update({"Family": q(fam), "K": k})
    return tlc("%s_%s_k%d" % (prefix, fam, k), "MC_Reps", c, inv + ["Emit"], workers=workers)


def plan_C11(tier, seed):
    k = 1 if tier == "quick" else 2
    j = rep_job("c11", "EQ", k, ["EqualRefines", "ClassRefines"], workers=8)
    return dict(
        tlc=[j], parallel=1,
        replay=[dict(name="c11_replay", family="equal", inputs=[j["name"]])],
        rule="x ranges over every Go representation (numeric kind per leaf, []any/[]T/[n]T, map[string]any/map[string]T/"
             "map[K]any, pointer and *any wrappers, defined types) of a pool of plain JSON values; each case is the row "
             "Equal(x, y) for all y of the same pool, both argument orders; the expected row is SameJSON = equality of "
             "denotations, cross-checked by an independent canonical form; non-trivial = the row contains both outcomes; "
             "distinct by the Go value of x",
        exhaustive=True,
        assumptions=["TLC", "pools.py number tables", "harness construction of represented values via reflect"])


def plan_C12(tier, seed):
    k = 1 if tier == "quick" else 2
    ua = rep_job("c12", "UA", k, [], workers=8)
    hu = rep_job("c12", "HU", 1, ["HashTheorem"], workers=4)
    eq = rep_job("c12", "EQ", 1, ["EqualRefines"], workers=6)
    return dict(
        tlc=[ua, hu, eq], parallel=3,
        replay=[dict(name="c12_uarr", family="uarr", inputs=[ua["name"], hu["name"]]),
                dict(name="c12_hashlaw", family="equal", inputs=[eq["name"]])],
        rule="UA: arrays (length 0..2, thorough 0..3, plus length 5) over elements of all JSON types in every mixed "
             "representation x the schemas uniqueItems / enum / const / items-enum; each verdict taken 8 times (fresh hash "
             "seed per call) and compared with the pairwise-SameJSON definition. HU: TLC proves that for every hash function "
             "satisfying Equal => same hash the bucket scan equals the pairwise verdict. EQ: the law itself is checked on the "
             "real hashValue (hook VerifHash) for all SameJSON pairs under 4 seeds. Non-trivial = case has both verdicts.",
        exhaustive=True,
        assumptions=["TLC", "harness construction of represented values via reflect", "hook VerifHash wraps hashValue"])


def plan_C08(tier, seed):
    k = 1 if tier == "quick" else 2
    j = rep_job("c08", "RV", k, [], workers=8)
    eq = rep_job("c08", "EQ", 1, ["ClassRefines"], workers=6)
    return dict(
        tlc=[j, eq], parallel=2,
        replay=[dict(name="c08_replay", family="repval", inputs=[j["name"]])],
        rule="a pool of schemas touching every keyword group x every exact Go representation of a pool of JSON values; "
             "expected verdict = L0 verdict of the denoted JSON value (which is also compared with the verdict of the "
             "canonical encoding/json decoding); TLC also checks that the code's classification (jsonType, string-keyword "
             "guard) is representation independent; non-trivial = the schema has both verdicts over the pool",
        exhaustive=True,
        assumptions=["TLC", "harness construction of represented values via reflect", "encoding/json as the canonical decoder"])


def plan_C17(tier, seed):
    k = 2 if tier == "quick" else 4
    c = {"DEV_AtoiIndex": "FALSE", "MUT_UnescapeOrder": "FALSE", "K": k}
    jobs = [tlc("c17_%s" % f, "MC_Pointer", dict(c, Family=q(f)), inv, workers=6)
            for f, inv in (("P1", ["Designated", "PointerRefinesP1", "Emit"]), ("P2", ["PointerRefines", "Emit"]))]
    return dict(
        tlc=jobs, parallel=2,
        replay=[dict(name="c17_replay", family="eval", inputs=[j["name"] for j in jobs])],
        rule="P1: for every subschema-bearing keyword of both drafts (single / array / map valued, incl. the items and "
             "dependencies unions) x every key string over the alphabet {a / ~ 0 1 %% space - +} up to length K plus non-ASCII "
             "and '$ref', '#', '?', '01' x indexes 0..2, nested to depth 2: a $ref built from the location's RFC 6901 pointer "
             "(escaped, percent-encoded by the harness's own encoder) must reach exactly that uniquely marked subschema; "
             "P2: pointers that name no subschema location (signs, leading zeros, '-', out of range, through non-schema "
             "keywords, wrong case, missing slash ...) must make Resolve fail. TLC also checks the character-level laws "
             "Unesc(Esc(k)) = k, Parse(Ptr(tokens)) = tokens, AtoiOK = IndexOK. Non-trivial = every case (each has a "
             "discriminating verdict vector or a predicted error); distinct by document text",
        exhaustive=True,
        assumptions=["TLC", "net/url fragment decoding", "harness pointer escaping / percent-encoding (independent of the repo)"])


COD_C = {"DEV_OmitEmptyAssertingLists": "FALSE", "DEV_CaseFoldKeys": "FALSE"}


def cod_job(prefix, fam, k, inv, workers=6):
    return tlc("%s_%s_k%d" % (prefix, fam, k), "MC_Codec", dict(COD_C, Family=q(fam), K=k), inv + ["Emit"], workers=workers)


def plan_C19(tier, seed):
    j = cod_job("c19", "PO", 2 if tier == "quick" else 3, ["OrderRefines"], workers=8)
    return dict(
        tlc=[j], parallel=1,
        replay=[dict(name="c19_replay", family="order", inputs=[j["name"]])],
        rule="property sets of size 0..3 (thorough 0..4) over 8 names whose byte order differs from other orders (upper/lower "
             "case, prefixes, empty, non-ASCII, '10' vs '9') x all PropertyOrder lists of length <= 2 (thorough 3) over those "
             "names and 2 absent ones (permutations, subsets, supersets, duplicates); one property carries a nested schema with "
             "its own order; expected key sequence = KeyOrder (L0), checked equal to orderedProperties (L1) by TLC; the real "
             "bytes are token-scanned and marshaled 30 more times for byte equality; non-trivial = >= 2 properties or a "
             "duplicate (error) case; distinct by (props, order)",
        exhaustive=True, assumptions=["TLC", "pools.py byte-order table", "encoding/json token scanner"])


def plan_C05(tier, seed):
    j = cod_job("c05", "RT", 1 if tier == "quick" else 2, ["RoundTripKeepsMeaning", "KeepsKeywords"], workers=8)
    rd = cod_job("c05", "RD", 1, [], workers=2)
    return dict(
        tlc=[j, rd], parallel=2,
        replay=[dict(name="c05_replay", family="roundtrip", inputs=[j["name"]]),
                dict(name="c05_documents", family="rawdoc", inputs=[rd["name"]])],
        rule="Schema VALUES built as Go literals: every exported field in every state its type allows (nil / empty / "
             "one / two elements; const pointer-to-nil; default null; Type xor Types incl. empty; Items xor ItemsArray; "
             "Defs xor Definitions; dependency maps; Extra), singly, nested under properties/items/allOf and (thorough) in "
             "pairs; checks: Marshal emits exactly the keywords Codec.tla predicts, Unmarshal(Marshal(s)) marshals to the same "
             "bytes, and the verdict vectors of s, of its round trip and of L0 agree on the instance pool; non-trivial = "
             "discriminating vector; distinct by marshaled bytes. Document side (RD): 35 document texts exercising every documented "
             "normalisation (boolean forms, integral floats, exponents, omitted zero-valued keywords, items/dependencies unions, "
             "unknown keywords, const null): Marshal(Unmarshal(d)) must equal the predicted normal form as a JSON value, a second "
             "round trip must be byte-identical and verdicts must be unchanged",
        exhaustive=True, assumptions=["TLC", "harness builder of Schema literals", "encoding/json"])


def plan_C18(tier, seed):
    j = cod_job("c18", "DK", 1 if tier == "quick" else 2, ["DecorationInert"], workers=6)
    rd = cod_job("c18", "RD", 1, [], workers=2)
    return dict(
        tlc=[j, rd], parallel=2,
        replay=[dict(name="c18_replay", family="eval", inputs=[j["name"]]),
                # "a document that contains unknown keywords is always accepted by Unmarshal": the raw documents
                dict(name="c18_documents", family="rawdoc", inputs=[rd["name"]], kinds=["unmarshal"])],
        rule="base schemas x decoration at the root or at the first subschema: every documented non-asserting keyword with "
             "well-typed values (incl. contentSchema:false, defaults that would not validate, unreferenced $defs/definitions "
             "entries that are false) and unknown keyword names incl. names differing from a keyword only by case ('Type', "
             "'MINIMUM', '$REF', 'properties ' ...) with values that would assert if read as the keyword; expected verdict "
             "vector = that of the undecorated base; Unmarshal must accept; non-trivial = discriminating vector",
        exhaustive=True, assumptions=["TLC", "encoding/json"])


def plan_C15(tier, seed):
    j = tlc("c15_defaults", "MC_Defaults", {"K": 2 if tier == "quick" else 3, "DEV_EmptyContainerDefault": "FALSE"},
            ["LawsHold", "Emit"], workers=6)
    return dict(
        tlc=[j], parallel=1,
        replay=[dict(name="c15_replay", family="defaults", inputs=[j["name"]])],
        rule="root schemas with defaults at depth <= 2 (thorough 3) of properties: defaults of every JSON type incl. null and "
             "object defaults lacking nested defaults, on object and non-object subschemas, with/without required at each "
             "level x 16 instances (every subset of the properties present, non-objects at any position); TLC checks the L0 "
             "laws (idempotent, preserving, never-required, every insertion justified) on the code-shaped walk; the harness "
             "compares the instance after ApplyDefaults with the model's, re-applies (history), and compares "
             "Resolve(ValidateDefaults) ok/err with 'every default validates against its declaring subschema'; non-trivial = "
             "some instance changes or ValidateDefaults must fail",
        exhaustive=True, assumptions=["TLC", "encoding/json decoding of defaults and instances"])


def plan_C20(tier, seed):
    j = tlc("c20_clone", "MC_Clone", {"K": 2 if tier == "quick" else 3, "MUT_SkipField": q("none")}, ["CloneOK", "Emit"], workers=8)
    return dict(
        tlc=[j], parallel=1,
        replay=[dict(name="c20_replay", family="clone", inputs=[j["name"]])],
        rule="Schema trees with a subschema under every schema-valued, schema-array-valued and schema-map-valued field (both "
             "drafts' fields) at depth 1, all 23x23 field pairs at depth 2, wide trees populating every field at once, empty "
             "containers and (thorough) depth 3; TLC checks the heap model (equal shape, disjoint ids, mutation independence); "
             "the harness builds the tree as a Go literal and checks pointer sets (own reflective walker), marshaled bytes, "
             "Resolve of a parent holding both, and that assigning to every field / slice element / map entry of every object "
             "of one tree leaves the other's bytes unchanged, both ways; non-trivial = more than one Schema object",
        exhaustive=True, assumptions=["TLC", "harness literal builder and reflective walker"])


def plan_C14(tier, seed):
    life = tlc("c14_lifecycle", "MC_Lifecycle", {"DEV_MutateLoadedDoc": "FALSE", "MaxHist": 3 if tier == "quick" else 4},
               ["Deterministic", "Pure", "Emit"], workers=4)
    ev = eval_jobs("c14", [("F3", 2), ("F5", 1), ("U1", 1), ("DUP", 1), ("MX", 1), ("W", 1), ("FK", 1)], "2020") + eval_jobs("c14", [("G2", 2), ("G5", 1)], "d7")
    rs = res_jobs("c14", [("R2", 1)])
    lit = [cod_job("c14", "PO", 2, ["OrderRefines"]), cod_job("c14", "RT", 1, ["RoundTripKeepsMeaning", "KeepsKeywords"])]
    rv = rep_job("c14", "RV", 1, [], workers=6)
    return dict(
        tlc=[life] + ev + rs + lit + [rv], parallel=4,
        replay=[dict(name="c14_history", family="history", inputs=[life["name"]]),
                # the instance in every Go representation (typed slices, arrays, maps, pointers): untouched by Validate
                dict(name="c14_instances", family="repval", inputs=[rv["name"]], kinds=["validate-modifies-instance"]),
                dict(name="c14_literals", family="purelit", inputs=[j["name"] for j in lit], processes=2),
                dict(name="c14_pure", family="pure", inputs=[j["name"] for j in ev + rs],
                     processes=2 if tier == "quick" else 4)],
        rule="(a) Lifecycle.tla: all histories of Resolve/Validate/Marshal calls of length 3 (thorough 4) over a draft-07 root, "
             "a 2020-12 root and one remote document shared through a memoising Loader; every call's result must be the "
             "history-independent Expected value and no caller-owned object may change (deep reflective snapshots around every "
             "call). (b) the universes of the map-heavy evaluator families (F3, F5, U1, G2, G5), of documents with two resources under "
             "one URI and of universes mixing the two dialects (DUP, MX: no prediction, only determinism) and of the Loader family R2 "
             "replayed with snapshots of schema, Loader documents and instance around every call, each Resolve done eight times, "
             "each Validate three times, Marshal before/after, and the whole replay repeated in 2 (thorough 4) fresh "
             "processes whose digests of verdict vectors and bytes must be identical. (c) Schema LITERALS of the codec families (every "
             "field state; all PropertyOrder lists incl. stale names, built with spare slice capacity): Marshal x4 and Resolve "
             "must leave the deep fingerprint unchanged and agree byte for byte, also across processes. (d) the represented instances "
             "of MC_Reps RV (typed slices / arrays / maps / interior pointers) x its schemas: fingerprint of the instance before and "
             "after every Validate. Non-trivial = history longer than one "
             "call / discriminating verdict vector.",
        exhaustive=True, assumptions=["TLC", "harness deep fingerprint (reflection) of Schema trees and instances"])


def plan_C13(tier, seed):
    maxev = 18
    jobs = [tlc("c13_sched", "Concurrency", {"MUT_SharedStack": "FALSE", "MaxEvents": maxev},
                ["SameAsSequential", "StacksBalanced", "Emit"], workers=8)]
    if tier != "quick":
        jobs.append(tlc("c13_sched_sim", "Concurrency", {"MUT_SharedStack": "FALSE", "MaxEvents": 60},
                        ["SameAsSequential", "StacksBalanced", "Emit"], workers=1, simulate="num=3000", depth=64))
    return dict(
        record=[dict(name="c13_record", family="conc-record", args=["-conc-out", "{work}/ConcData.tla", "-conc-max-events", "60"])],
        tlc=jobs, parallel=2, race=True,
        replay=[dict(name="c13_replay", family="sched", inputs=[j["name"] for j in jobs]),
                dict(name="c13_stress", family="stress", inputs=[], race=True),
                # the cold-start phase happens once per process: two more processes
                dict(name="c13_stress_b", family="stress", inputs=[], race=True),
                dict(name="c13_stress_c", family="stress", inputs=[], race=True)],
        rule="the frame-event programs of two Validate calls per scenario (8 scenarios: $dynamicRef chains, regexps and "
             "required sets, unevaluated* annotations, uniqueItems hash seeds, recursion, oneOf/not) are RECORDED from the real "
             "code through the frame hook and handed to Concurrency.tla; TLC enumerates every interleaving of the two programs "
             "for scenarios with <= 16 events (thorough: plus 3000 simulated interleavings of the larger ones) checking that "
             "every dynamic-anchor lookup equals its sequential result; each interleaving is replayed on the real code with the "
             "blocking frame hook as scheduler gate and the verdict and every frame verdict compared with the call run alone. "
             "Data-race clause: 8 goroutines x 40 ungated calls on shared Resolved / Schema tree / type caches / Loader document "
             "in a -race build, results compared with sequential. Non-trivial = every schedule (two calls really interleave).",
        exhaustive=(tier == "quick"),
        assumptions=["TLC", "Go race detector", "frame hook placement (after push, before pop)",
                     "gated replay serialises the two calls between hook points: it decides results, not data races"])


def plan_C10(tier, seed):
    q_ = tier == "quick"
    fams = [("TK", 4 if q_ else 5), ("KV", 1), ("GR", 2 if q_ else 3), ("BU", 1), ("LD", 1)]
    jobs = [tlc("c10_%s" % f, "MC_Total", {"Family": q(f), "K": k}, ["Emit"], workers=6) for f, k in fams]
    # the malformed-reference and fault universes of the resolver, and represented instances
    jobs += res_jobs("c10", [("R2", 1)])
    jobs += eval_jobs("c10", [("G3", 1)], "d7") + eval_jobs("c10", [("F5", 1), ("DUP", 1), ("MX", 1)], "2020")
    jobs += [tlc("c10_P2", "MC_Pointer", {"DEV_AtoiIndex": "FALSE", "MUT_UnescapeOrder": "FALSE", "K": 2, "Family": q("P2")}, ["PointerRefines", "Emit"], workers=2)]
    rep = rep_job("c10", "RV", 1, [], workers=6)
    # For / ForType on every type universe of MC_Infer (incl. recursive and unsupported types, all ForOptions)
    inf = [tlc("c10_infer_%s" % f, "MC_Infer", {"Family": q(f), "K": 1 if q_ else 2, "CheckKnown": "FALSE", "LegacyNull": "FALSE"},
               ["Emit"], workers=4) for f in ("T", "S", "X", "O")]
    # ApplyDefaults on every schema x instance of MC_Defaults (null members, null defaults, non-objects at any position)
    dfl = tlc("c10_defaults", "MC_Defaults", {"K": 2, "DEV_EmptyContainerDefault": "FALSE"}, ["Emit"], workers=4)
    return dict(
        tlc=jobs + [rep] + inf + [dfl], parallel=4,
        replay=[dict(name="c10_total", family="total", inputs=[j["name"] for j in jobs[:5]]),
                dict(name="c10_defaults", family="defaults", inputs=[dfl["name"]], kinds=["panic", "hang"]),
                dict(name="c10_resolver", family="eval", inputs=[j["name"] for j in jobs[5:]]),
                dict(name="c10_reps", family="repval", inputs=[rep["name"]]),
                dict(name="c10_infer", family="infer", inputs=[j["name"] for j in inf], codegen=True, kinds=["panic", "hang"])],
        rule="every call runs under recover() and a 30 s deadline in the replay process (a fatal error is attributed to its case "
             "by a second run with a progress file); TK: all JSON token sequences of length <= 4 (thorough 5) over 11 tokens to "
             "Unmarshal, ill-formed ones (TLA+ recogniser of the JSON grammar) must be rejected, accepted ones are resolved, "
             "validated, defaulted and marshaled; KV: every keyword x every ill-typed JSON value must be rejected by Unmarshal "
             "or Resolve; GR: all Schema GRAPHS over 3 nodes and 4 child slots with <= 2 (thorough 3) edges incl. shared "
             "children, cycles and nil children: Resolve succeeds iff the graph is a tree; BU: malformed URIs, fragments in $id, "
             "bad regexps, conflicting union fields, bad BaseURI; LD: Loader misbehaviours (error, nil, wrong document, the root "
             "itself, one object for two URIs, self loops, mutual references, chains, broken documents); plus the resolver's "
             "fault universes (R2), universes mixing documents of the two supported dialects with keywords of the other one (MC_Eval MX: "
             "$dynamicRef / $dynamicAnchor / $anchor in a draft-07-declaring document loaded by a 2020-12 root and the reverse; no "
             "prediction, every Resolve and Validate must return), the invalid JSON-Pointer fragments of MC_Pointer P2 (signs, '-', indexes at and beyond the machine "
             "word, absent keywords) and represented instances (RV); For/ForType (twice, then Resolve) on every type of the MC_Infer "
             "families T, S, X and O (unsupported kinds plain and nested, with and without IgnoreInvalidTypes, described fields, "
             "self-recursive types through pointers/slices/maps/nested structs, TypeSchemas overrides); ApplyDefaults and Resolve(ValidateDefaults) "
             "on the MC_Defaults universe (null members, null defaults, non-objects at any position, Loader documents). Non-trivial = every malformed case; distinct by case text",
        exhaustive=True, assumptions=["TLC", "Go runtime recover() / deadline as the observation of panics and hangs"])


def infer_plan(prefix, tier, kinds, rule, fams=("T", "S", "X"), legacy=False):
    k = 1 if tier == "quick" else 2
    jobs = [tlc("%s_%s" % (prefix, f), "MC_Infer", {"Family": q(f), "K": k, "CheckKnown": "FALSE", "LegacyNull": "FALSE"},
                ["Sound", "SpecEq", "Emit"], workers=6) for f in fams]
    replay = [dict(name=prefix + "_replay", family="infer", inputs=[j["name"] for j in jobs], codegen=True, kinds=kinds)]
    if legacy:
        lj = [tlc("%s_%s_legacy" % (prefix, f), "MC_Infer", {"Family": q(f), "K": k, "CheckKnown": "FALSE", "LegacyNull": "TRUE"},
                  ["SpecEq", "Emit"], workers=4) for f in ("T", "S")]
        jobs += lj
        replay.append(dict(name=prefix + "_legacy", family="infer", inputs=[j["name"] for j in lj], codegen=True,
                           kinds=["inferred-schema", "for-nondeterministic", "for-shares-nodes", "for-error"],
                           env={"JSONSCHEMAGODEBUG": "typeschemasnull=1"}))
    return dict(
        tlc=jobs, parallel=3,
        replay=replay,
        rule=rule, exhaustive=True,
        assumptions=["TLC", "generated Go source for the enumerated types (harness gentypes)", "encoding/json as the encoder/decoder",
                     "GoTypes.tla's model of encoding/json is compared with the real json.Marshal on every value (mismatch = exit 2)"])


INFER_UNIVERSE = ("types enumerated by TLC (MC_Infer): T = all primitive kinds, interfaces, std marshaler types and pointers/slices/"
                  "arrays/maps of them (thorough: nested twice); S = structs: every field type x every tag form (none, name, "
                  "omitempty, omitzero, name+both, '-', '-,', unexported), two-field orders, embedding by value and by non-nil "
                  "pointer with promoted and Go-name-shadowed fields; X = one JSON name claimed by two fields, tagged embedded "
                  "field (known finding); Go source is generated and compiled for every type; values: zero, nils, extremes of "
                  "every sized integer, empty and non-empty containers, each struct field varied alone; ")


def plan_C04(tier, seed):
    return infer_plan("c04", tier, ["encoding-rejected", "for-error", "for-unresolvable"],
                      INFER_UNIVERSE + "C04: the real json.Marshal of every value, decoded, must validate against Resolve(ForType(T)); "
                      "TLC checks the same on the model (Sound). Family O: the same for ForType(T, options) with TypeSchemas entries "
                      "for user struct types (one type, several types, none; entries built with spare slice capacity; three calls "
                      "on one options value), wherever the specified result accepts the encoding. Non-trivial = struct/container types; distinct by type",
                      fams=("T", "S", "X", "O"))


def plan_C09(tier, seed):
    return infer_plan("c09", tier, ["accepted-but-undecodable", "missing-required-accepted", "mutation-verdict-differs"],
                      INFER_UNIVERSE + "C09: every single-point mutation of every valid encoding (drop a key, add a key, a key in "
                      "another letter case, swap a value's JSON type, push an integer past each sized bound, add a fraction, null, "
                      "array one longer/shorter) that the inferred schema still accepts (validated as a document with exact "
                      "numbers) must decode into T with DisallowUnknownFields; std marshaler types excluded. Mutations are "
                      "generated by the harness from the real encoding (the specification supplies types and values); integers also at "
                      "the edges of the 64-bit types and congruent to the encoded value modulo 2^8..2^64 (inside the property's range). "
                      "Second form: every document obtained by deleting ONE member that InferSpec lists as required at its place "
                      "must be rejected. Third form (from the schema's side): documents BUILT to satisfy the inferred schema "
                      "(per node: each declared type, bounds, all/required-only properties, each alternative per property, "
                      "array lengths) that it accepts must decode as well. Fourth: every mutation gets the same verdict from the inferred "
                      "schema as from the specified one (InferSpec) - null in a non-nullable place is refused")


def plan_C16(tier, seed):
    return infer_plan("c16", tier, ["inferred-schema", "for-nondeterministic", "for-shares-nodes", "for-unresolvable", "for-error", "for-options"],
                      INFER_UNIVERSE + "C16: ForType twice: byte-equal, no shared *Schema (reflective walker), Resolve accepts, and the "
                      "marshaled schema equals InferSpec(T) rendered as a Schema literal (properties = encoding/json's dominant "
                      "fields, JSON names, field order via PropertyOrder, required iff no omitempty/omitzero, pointer adds null); "
                      "TLC checks InferCode = InferSpec (SpecEq). Family O (ForOptions): unsupported kinds (chan, func, complex, "
                      "non-string-keyed maps; plain, nested in slices/maps/pointers/arrays, as named types occurring once or several "
                      "times) with IgnoreInvalidTypes off (error) and on (dropped); types containing themselves through pointers, "
                      "slices, maps and nested structs (error, never a hang); a named type occurring several times (no false cycle); "
                      "TypeSchemas entries with a type, with several types and without type (also for named types of unsupported kinds), at field / pointer / slice / map "
                      "positions and for structs embedded by value and by pointer: expected result from Infer.tla!InferOpt; results "
                      "share no Schema object with the entries, which stay unchanged when a result is scribbled over"
                      ". Configuration JSONSCHEMAGODEBUG=typeschemasnull=1: families T and S replayed in a child process with the "
                      "variable set against InferSpec with LegacyNull (slices not nullable, no null for pointers to std types, "
                      "big.Int nullable)",
                      fams=("T", "S", "X", "O"), legacy=True)


PLANS = {"C04": plan_C04, "C09": plan_C09, "C16": plan_C16, "C10": plan_C10, "C13": plan_C13, "C14": plan_C14, "C20": plan_C20, "C15": plan_C15, "C05": plan_C05, "C18": plan_C18, "C19": plan_C19, "C17": plan_C17, "C08": plan_C08, "C11": plan_C11, "C12": plan_C12, "C03": plan_C03, "C06": plan_C06, "C01": plan_C01, "C02": plan_C02, "C07": plan_C07}


def plan(prop, tier, seed):
    f = PLANS.get(prop)
    return f(tier, seed) if f else None
