"""Per-property verification plans: which TLC configurations to run and which
harness family replays their CASE lines.  One function per property; quick and
thorough tiers differ only in constants / families."""


def tlc(name, module, consts=None, invariants=(), properties=(), workers=4, timeout=900, **kw):
    c = {"DEV_MissingDynAnchorFails": "FALSE"}
    c.update(consts or {})
    d = dict(name=name, module=module, consts=c, invariants=list(invariants), properties=list(properties),
             workers=workers, timeout=timeout, spec_formula="Spec")
    d.update(kw)
    return d


def q(s):
    return '"%s"' % s


def plan_C01(tier, seed):
    fams = [("F1", 2)] if tier == "quick" else [("F1", 3)]
    jobs = [tlc("c01_%s" % f, "MC_C01", {"Family": q(f), "K": k}, ["Refines", "Emit"]) for f, k in fams]
    return dict(
        tlc=jobs, parallel=4,
        replay=[dict(name="c01_replay", family="eval", inputs=[j["name"] for j in jobs])],
        rule="schemas enumerated by TLC from MC_C01 families; a case is one schema with its verdict vector over the "
             "family's instance pool; non-trivial = the vector contains both valid and invalid; distinct by schema text",
        exhaustive=True,
        assumptions=["TLC", "pools.py tables", "encoding/json decoding of instances", "Go regexp on the portable subset"],
    )


PLANS = {"C01": plan_C01}


def plan(prop, tier, seed):
    f = PLANS.get(prop)
    return f(tier, seed) if f else None
