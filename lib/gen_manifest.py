#!/usr/bin/env python3
"""Regenerates /verif/MANIFEST.json from the table below (keep it valid at all times)."""
import json, os
VERIF = os.path.dirname(os.path.dirname(os.path.abspath(__file__)))

CLAIMED = {
    "C01": dict(
        text="TLC checks, on bounded universes of 2020-12 schemas x instances, that the code-shaped evaluator (EvalCode.tla, a "
             "transcription of validate.go incl. its compressed annotations) refines the specification-shaped validity relation "
             "(Eval.tla, written from the drafts); every enumerated behaviour is replayed through json.Unmarshal -> Resolve -> "
             "Validate on the real code and the verdicts compared. Bounded model checking plus conformance replay is the right "
             "level for a relation over an infinite input space. In the other direction every Validate call on the repository's own test-suite inputs and on a seeded random driver is recorded through the verif frame hook and TLC (Trace.tla) accepts the trace only if the verdict of every frame equals the L0 verdict for that subschema, instance and dynamic scope.",
        note="Trusted: TLC, pools.py tables (python fractions/re), encoding/json decoding of instances, Go regexp on the "
             "portable pattern subset. Bounded universes: see DESIGN.md section 6 (C01).",
        technique="TLA+ spec (Eval/EvalCode) model-checked with TLC; TLC-generated behaviours replayed on the real code; traces recorded from the real code validated against Trace.tla",
        design="6/C01"),
    "C02": dict(
        text="Same machinery as C01 under draft-07: TLC checks EvalCode (code-shaped, with the draft-07 $ref short-circuit, "
             "items-array/additionalItems, dependencies, $id-as-anchor) against Eval (written from draft-07) on bounded universes, "
             "including the $schema configuration switch (absent / 2020-12 / two draft-07 spellings / unsupported values => refused) "
             "and draft-07 roots that load remote documents with and without their own $schema from the root and from subschemas; "
             "every behaviour is replayed on the real code. In the other direction every Validate call on the repository's own test-suite inputs and on a seeded random driver is recorded through the verif frame hook and TLC (Trace.tla) accepts the trace only if the verdict of every frame equals the L0 verdict for that subschema, instance and dynamic scope.",
        note="Trusted: as C01. Mixed-draft universes and 2020-only keywords inside draft-07 documents are outside the quantifier.",
        technique="TLA+ spec (Eval/EvalCode/Resolve) model-checked with TLC; TLC-generated behaviours replayed on the real code; traces recorded from the real code validated against Trace.tla",
        design="6/C02"),
    "C07": dict(
        text="TLC checks that the code's compressed annotation record (allItems/endIndex/evaluatedIndexes/allProperties/"
             "evaluatedProperties, merged into the caller only on success) denotes exactly the specification's annotation sets and "
             "yields the same verdict, over universes that combine unevaluatedProperties/unevaluatedItems with every in-place "
             "applicator, failing-then-passing branches, not, nested unevaluated*, $ref; every behaviour is replayed on the real code. In the other direction every Validate call on the repository's own test-suite inputs and on a seeded random driver is recorded through the verif frame hook and TLC (Trace.tla) accepts the trace only if the verdict of every frame equals the L0 verdict for that subschema, instance and dynamic scope.",
        note="Trusted: as C01.",
        technique="TLA+ spec (Eval annotations vs EvalCode compressed annotations) model-checked with TLC; behaviours replayed on the real code; traces recorded from the real code validated against Trace.tla",
        design="6/C07"),
    "C03": dict(
        text="TLC explores the resolver as a small-step machine (ResolverCode.tla: cache set before references are followed, "
             "local hit / cache hit / Loader call, info merge, fragment lookup) on bounded universes of embedded resources and "
             "Loader documents, for every fault subset and every order of visiting references, and checks NoPanic, AtMostOnce, "
             "NeverLoadsKnown, NoReentry, termination (liveness under weak fairness) and refinement of the RFC 3986 / JSON Schema "
             "designation function (Resolve.tla, URI.tla) at termination. Each final state's prediction (Resolve ok/err, which "
             "uniquely marked target accepts, the Loader call set) is replayed on the real Resolve/Validate with a logging Loader.",
        note="Trusted: TLC, net/url parsing of generated URI texts (the RFC 3986 resolution itself is specified in URI.tla and "
             "compared through the observed targets). Universes: DESIGN.md section 6 (C03).",
        technique="TLA+ small-step resolver machine model-checked with TLC (safety + liveness); behaviours replayed on the real code",
        design="6/C03"),
    "C06": dict(
        text="TLC checks the code-shaped dynamic-scope lookup (stack of schemas searched outermost-first through each entry's "
             "base) against the specification's rule (outermost resource of the dynamic scope declaring the $dynamicAnchor, "
             "static target otherwise) on all chains of 1..3 (thorough: 4) resources entered via $ref/$dynamicRef/allOf hops, "
             "embedded and Loader-supplied, with fragment / resource-relative / pointer final references; marked targets reveal "
             "the chosen subschema; all instances of a case are validated on one Resolved (history of calls). In the other direction every Validate call on the repository's own test-suite inputs and on a seeded random driver is recorded through the verif frame hook and TLC (Trace.tla) accepts the trace only if the verdict of every frame equals the L0 verdict for that subschema, instance and dynamic scope.",
        note="Trusted: as C01.",
        technique="TLA+ spec (Eval DynTarget vs EvalCode DynLookup) model-checked with TLC; behaviours replayed on the real code; traces recorded from the real code validated against Trace.tla",
        design="6/C06"),
    "C08": dict(
        text="TLC checks that the code's classification functions (jsonType, jsonNumber, the string-keyword kind guard) are "
             "functions of the denoted JSON value for every Go representation tag (Reps.tla), and computes the L0 verdict of a "
             "schema pool touching every keyword group on the denotation; the harness builds each representation with reflect "
             "(numeric kinds, json.Number, []any/[]T/[n]T, map[string]any/map[string]T/map[K]any, pointers, *any, defined types) "
             "and compares the real verdict with L0 and with the canonical decoding's verdict.",
        note="Trusted: TLC, harness construction of represented values, encoding/json. nil slices/maps and structs are outside the domain.",
        technique="TLA+ spec of representations (Reps.tla) model-checked with TLC; behaviours replayed on the real code",
        design="6/C08"),
    "C11": dict(
        text="L0 SameJSON = equality of denotations (an equivalence by construction); L1 EqualCode = equalValue's kind-directed "
             "case analysis; TLC checks EqualCode = SameJSON on all pairs of a pool of represented values, in both argument orders; "
             "every row is replayed on the real Equal, with an independent canonical-form witness guarding the prediction.",
        note="Trusted: TLC, pools.py number tables, harness construction of represented values.",
        technique="TLA+ spec (Reps.tla EqualCode vs SameJSON) model-checked with TLC; behaviours replayed on the real code",
        design="6/C11"),
    "C12": dict(
        text="TLC proves on bounded arrays that for EVERY hash assignment satisfying the law Equal => same hash the bucket scan "
             "of uniqueItems returns the pairwise verdict (seed independence as a theorem of the model); the law - the theorem's "
             "only assumption - is bound to the real hashValue through the verif hook for all equal pairs under 4 seeds; "
             "uniqueItems/enum/const verdicts on mixed-representation arrays are replayed 8 times each (fresh seed per call).",
        note="Trusted: TLC, hook VerifHash (thin wrapper around hashValue), harness construction of represented values.",
        technique="TLA+ spec (hash-bucket scan theorem) model-checked with TLC; hash law checked on the real code via hook; behaviours replayed",
        design="6/C12"),
    "C17": dict(
        text="Pointer.tla defines RFC 6901 escaping/unescaping, pointer text, the code's one-pass unescape and its index parsing over "
             "character sequences; TLC checks the round-trip and index laws for all tokens over a hostile alphabet and that "
             "Resolve.tla's Designates maps the pointer of every location (every subschema-bearing keyword of both drafts, key "
             "strings, indexes, nested) to exactly that location; each such $ref and each invalid pointer is replayed on the real "
             "Resolve/Validate with uniquely marked targets.",
        note="Trusted: TLC, net/url fragment decoding, the harness's own pointer escaper / percent-encoder.",
        technique="TLA+ spec (Pointer.tla + Resolve.tla) model-checked with TLC; behaviours replayed on the real code",
        design="6/C17"),
    "C05": dict(
        text="Codec.tla models Marshal on the abstract syntax (which keywords are emitted: omitempty drops nil and empty slices/maps "
             "except those routed through the shadow struct) and Unmarshal; TLC checks on every field state, nested and in pairs, "
             "that the round trip keeps the L0 meaning (Eval verdict vector) and that marshaling is idempotent. The harness builds "
             "the same Schema values as Go literals and checks emitted key set = prediction, byte-identical second marshal, and "
             "equal verdict vectors of value, round trip and L0.",
        note="Trusted: TLC, harness literal builder, encoding/json. Document-side normalisations (2.0 -> 2, boolean forms) are "
             "covered through C01/C02/C18 replays (Unmarshal route) and the raw-document table of the thorough tier.",
        technique="TLA+ spec (Codec.tla Mar/Unm + Eval) model-checked with TLC; behaviours replayed on the real Marshal/Unmarshal/Validate",
        design="6/C05"),
    "C18": dict(
        text="L0: the validity relation never mentions non-asserting or unknown keywords, and a document key is a keyword only if "
             "it is exactly the keyword; Codec.tla's ReadAsKeyword models the decoder's field matching. TLC checks decoration "
             "inertness on base schemas x decorations at root and subschema; every decorated document is replayed through the real "
             "Unmarshal -> Resolve -> Validate and compared with the undecorated base's L0 verdicts.",
        note="Trusted: TLC, encoding/json.",
        technique="TLA+ spec (Codec.tla key matching + Eval) model-checked with TLC; behaviours replayed on the real code",
        design="6/C18"),
    "C19": dict(
        text="L0 KeyOrder (listed names present, in list order, then the rest ascending by bytes; duplicates are an error) vs L1 "
             "orderedProperties (processed-set algorithm); TLC checks L1 = L0 for all property sets and PropertyOrder lists of the "
             "universe; every case is replayed: key order token-scanned from the real bytes, nested order, 30 repeated marshals "
             "byte-equal under randomised map iteration.",
        note="Trusted: TLC, pools.py byte-order table, encoding/json token scanner.",
        technique="TLA+ spec (Codec.tla KeyOrder) model-checked with TLC; behaviours replayed on the real Marshal",
        design="6/C19"),
    "C04": dict(
        text="GoTypes.tla models Go types, values and what encoding/json emits for them (dominant-field rule on JSON names, "
             "omitempty/omitzero/nil rules); Infer.tla gives the code-shaped forType walk (InferCode) and the documented result "
             "(InferSpec); TLC checks Valid(InferCode(T), Enc(T, v)) for every type and value of the universe. The harness "
             "generates and compiles Go source for every enumerated type, builds the values, and checks on the real code that "
             "Validate(decode(json.Marshal(v))) passes against Resolve(ForType(T)); the encoding model itself is compared with "
             "the real json.Marshal (mismatch = exit 2, never a violation).",
        note="Trusted: TLC, generated Go source, encoding/json. Known findings (KNOWN-FINDING lines): *big.Int schema is string; "
             "JSON name claimed by two fields / tagged embedded field.",
        technique="TLA+ spec (GoTypes/Infer/Eval) model-checked with TLC; generated Go types and values replayed on the real For/Marshal/Validate",
        design="6/C04"),
    "C09": dict(
        text="Same types and values as C04; for every valid encoding the harness derives all single-point mutations and checks the "
             "implication 'inferred schema accepts the document => Decoder(DisallowUnknownFields) decodes it into T' on the real "
             "code; TLC contributes the type/value universe and the soundness of the inference rules (Sound, SpecEq).",
        note="Trusted: as C04. The mutation generator lives in the harness (documented deviation from 'mutations in the spec'): "
             "the oracle is the real decoder, not a model of it.",
        technique="TLA+-enumerated types/values (MC_Infer) with TLC; mutation-implication check on the real Validate and json.Decoder",
        design="6/C09"),
    "C16": dict(
        text="TLC checks InferCode(T) = InferSpec(T) (the forType walk yields exactly encoding/json's field set, names, order, "
             "required rule, null for pointers); the harness calls ForType twice per generated type and checks byte-equal results, "
             "no shared *Schema between results, Resolve accepts, and the marshaled schema equals InferSpec(T) rendered as a Schema "
             "literal.",
        note="Trusted: as C04. TypeSchemas / IgnoreInvalidTypes / recursive types are exercised by the thorough tier's option "
             "configurations only partially (see DESIGN.md section 8).",
        technique="TLA+ spec (Infer.tla InferCode vs InferSpec) model-checked with TLC; generated Go types replayed on the real ForType",
        design="6/C16"),
    "C10": dict(
        text="MC_Total.tla enumerates the malformed inputs of every entry point and predicts where the documentation fixes it "
             "whether the call must fail: JSON token sequences with a TLA+ recogniser of the JSON grammar, keyword x ill-typed "
             "value, Schema graphs (IsTree), malformed URIs/regexps/conflicts, Loader misbehaviours; the resolver machine "
             "(ResolverCode.tla) contributes NoPanic and termination for all fault subsets. Every case is executed on the real "
             "code under recover() and a deadline; a panic, fatal error or deadline miss is the violation, as is accepting an "
             "input the specification says must be rejected.",
        note="Trusted: TLC, recover()/deadline observation. Arbitrary byte strings are represented by token sequences (length <= 5) "
             "and by all generated documents of the other families; For/ForType on arbitrary types is covered by C16's check.",
        technique="TLA+ enumeration of malformed inputs with predicted error/no-error, model-checked resolver NoPanic/termination; replayed under recover+deadline",
        design="6/C10"),
    "C13": dict(
        text="Concurrency.tla runs two Validate calls as processes over private dynamic-scope stacks and read-only Resolved tables; "
             "the processes' programs are the frame-event sequences RECORDED from the real code (frame hook), so the model is bound "
             "to real executions. TLC explores every interleaving (bounded scenarios; larger ones by simulation) and checks that "
             "each dynamic-anchor lookup equals its sequential result; every interleaving is then replayed on the real code with the "
             "blocking frame hook as the scheduler gate and all verdicts compared with the sequential run. Data races are decided by "
             "the Go race detector on ungated goroutines over shared Resolved, Schema trees, type caches and a shared Loader document.",
        note="Trusted: TLC, Go race detector (dynamic: only races that occur in the stress run are seen), hook placement. "
             "Gated replay has the granularity of frame events, not of individual memory accesses.",
        technique="TLA+ process model over recorded frame programs model-checked with TLC; schedules replayed with a hook gate; -race stress",
        design="6/C13"),
    "C14": dict(
        text="Lifecycle.tla models the API as a state machine over the objects a caller shares between calls (two roots of "
             "different drafts, one remote document handed out by a memoising Loader); TLC checks, for all call histories, that "
             "every result is a function of the call's inputs alone (Deterministic) and that no caller-owned object is written "
             "(Pure); the same histories are executed on the real code with deep reflective snapshots around every call. The "
             "evaluator and resolver universes are additionally replayed with snapshots, repeated calls, and in several fresh "
             "processes whose verdict/bytes digests must coincide (map iteration order, hash seeds).",
        note="Trusted: TLC, the harness's reflective deep fingerprint. Process-level nondeterminism is sampled (2/4 processes), not enumerated.",
        technique="TLA+ lifecycle state machine model-checked with TLC; histories replayed on the real code with deep snapshots; cross-process digests",
        design="6/C14"),
    "C15": dict(
        text="Defaults.tla transcribes the applyDefaults walk and states the L0 laws (idempotent, preserving, never fills a required "
             "property, every insertion is the declared default recursively completed or a container holding one); TLC checks the "
             "laws for all schemas x instances of the universe and predicts the resulting instance and whether every default "
             "validates against its declaring subschema; both predictions are replayed on ApplyDefaults (twice: history) and "
             "Resolve(ValidateDefaults).",
        note="Trusted: TLC, encoding/json. Schemas with $dynamicRef are outside (documented limitation of ValidateDefaults).",
        technique="TLA+ spec (Defaults.tla + Eval) model-checked with TLC; behaviours replayed on the real code",
        design="6/C15"),
    "C20": dict(
        text="Heap.tla gives Schema nodes identity; Clone is a walk over the table of subschema-bearing fields. TLC checks equal "
             "shape, disjoint node ids and mutation independence in both directions for trees with subschemas under every field "
             "(and pairs of fields, wide trees, empty containers); each tree is built as a Go literal and CloneSchemas is checked "
             "with an independent reflective walker, marshaled bytes, Resolve of a common parent and scribbling over every field, "
             "slice element and map entry of one side.",
        note="Trusted: TLC, harness literal builder and reflective walker (finds *Schema, []*Schema, map[string]*Schema fields by type).",
        technique="TLA+ heap model of CloneSchemas model-checked with TLC; behaviours replayed on the real code",
        design="6/C20"),
}

NOT_YET = "check not built yet in this round (work in progress; see DESIGN.md section 11)"

def main():
    props = [json.loads(l) for l in open(os.path.join(VERIF, "properties.jsonl"))]
    checks, na = [], []
    for p in props:
        pid = p["id"]
        c = CLAIMED.get(pid)
        if c is None:
            na.append(dict(property_id=pid, reason=NOT_YET))
            continue
        checks.append(dict(
            property_id=pid,
            quick_cmd="./check %s --tier quick" % pid,
            thorough_cmd="./check %s --tier thorough" % pid,
            evidence_file="/verif/evidence/%s.json" % pid,
            replay_cmd_template="./check %s --replay {path}" % pid,
            engine="tlc+vrun",
            level_claimed=dict(category="model_checking", text=c["text"], design_ref="DESIGN.md " + c["design"]),
            level_note=c["note"],
            technique=c["technique"],
        ))
    m = dict(
        version=1,
        setup_cmd="./setup.sh",
        hooks=dict(guard="verif", enable="go build -tags verif (harness/go.mod replaces github.com/google/jsonschema-go => /repo)",
                   baseline_off_cmd="cd /repo && GOFLAGS=-mod=mod go test -vet=off -count=1 ./...",
                   source_commits=HOOK_COMMITS, add_only=True),
        engines=[dict(name="tlc+vrun", path="/verif/check", serves_properties=[c["property_id"] for c in checks],
                      kind_free_text="TLA+ specifications in spec/ model-checked by TLC; Go harness harness/cmd/vrun replays "
                                     "TLC-generated behaviours on the real code and records real executions for trace validation")],
        checks=checks,
        notes="All checks: ./check <ID> [--tier quick|thorough]; VERIF_SEED seeds TLC simulation and the Go drivers.",
        not_applicable=na,
    )
    json.dump(m, open(os.path.join(VERIF, "MANIFEST.json"), "w"), indent=1)
    print("MANIFEST: %d checks, %d not_applicable" % (len(checks), len(na)))

HOOK_COMMITS = ["5d44ef1", "ead5f6c"]

if __name__ == "__main__":
    main()
