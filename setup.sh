#!/bin/sh
# Run once after a fresh restore, offline: regenerate pools, warm the Go build cache.
set -e
cd "$(dirname "$0")"
export GOFLAGS=-mod=mod GOPROXY=off GOSUMDB=off GOTOOLCHAIN=local
python3 spec/pools.py
cp /repo/go.sum harness/go.sum
mkdir -p .work
(cd harness && go build -tags verif -o ../.work/vrun.setup ./cmd/vrun && go build -tags verif -race -o ../.work/vrun.setup.race ./cmd/vrun)
rm -f .work/vrun.setup .work/vrun.setup.race
echo setup ok
