---- MODULE MC_Codec ----
(***************************************************************************)
(* C19 (family PO), C05 (families RT: schema values, RD: documents),       *)
(* C18 (family DK: decorations).                                           *)
(***************************************************************************)
EXTENDS Codec, Eval, Json, SequencesExt

CONSTANTS Family, K

VARIABLES cs, phase
vars == <<cs, phase>>

\* ------------------------------------------------------------ PO
PONames == {"a", "b", "B", "aa", "", "U_e1", "10", "9"}
POAbsent == {"z", "c"}
POProps == {S \in SUBSET PONames : Cardinality(S) <= (IF K >= 3 THEN 4 ELSE 3)}
POOrders == UNION {[1..n -> PONames \cup POAbsent] : n \in 0..K}
\* names whose byte order differs from the order of their JSON-encoded forms
PONames2 == {"a", "a!", "a b", "a<b", "aZ", "a_q", "a_bs", "a&", "b", "C_01", "C_07", "C_0b", "C_7f", "U_tag"}
POProps2 == {S \in SUBSET PONames2 : Cardinality(S) >= 2 /\ Cardinality(S) <= (IF K >= 3 THEN 4 ELSE 3)}
POOrders2 == {<<>>} \cup {<<x>> : x \in {"a", "aZ", "z"}}
\* LONG orders: more entries than properties, the absent names ahead of, between and behind the present ones
\* (whatever bounds the walk over PropertyOrder, it is not the number of properties), duplicates far apart
POLongNames == {"a", "b", "B", "z", "c"}
POLongOrders == {o \in UNION {[1..n -> POLongNames] : n \in 3..4} : \A i, j \in DOMAIN o : i # j => o[i] # o[j]}
                \cup {<<"z", "c", "b", "a", "z">>, <<"a", "z", "c", "a">>, <<"z", "z", "b", "a">>, <<"z", "c", "B", "b", "a">>, <<"c", "z", "b", "B", "a">>}
POLongProps == {S \in SUBSET {"a", "b", "B"} : S # {}}
POCases == {[props |-> SetToSeq(S), order |-> o, exp |-> KeyOrder(S, o)] : S \in POProps, o \in POOrders}
           \cup {[props |-> SetToSeq(S), order |-> o, exp |-> KeyOrder(S, o)] : S \in POLongProps, o \in POLongOrders}
           \cup {[props |-> SetToSeq(S), order |-> o, exp |-> KeyOrder(S, o)] : S \in POProps2, o \in POOrders2}


\* ------------------------------------------------------------ RT: schema values (C05)
IntS == [type |-> "integer"]
StrS == [type |-> "string"]
RTAtoms ==
  {[enum |-> e] : e \in {<<>>, <<Num(R_1)>>, <<Null, Str("a")>>}}
  \cup {[examples |-> e] : e \in {<<>>, <<Num(R_1)>>}}
  \cup {[allOf |-> q] : q \in {<<>>, <<IntS>>, <<IntS, [minimum |-> R_2]>>}}
  \cup {[anyOf |-> q] : q \in {<<>>, <<IntS>>, <<StrS, [minimum |-> R_2]>>}}
  \cup {[oneOf |-> q] : q \in {<<>>, <<IntS>>, <<IntS, [minimum |-> R_2]>>}}
  \cup {[prefixItems |-> q] : q \in {<<>>, <<IntS>>}}
  \cup {[itemsArray |-> q] : q \in {<<>>, <<IntS>>}}
  \cup {[required |-> q] : q \in {<<>>, <<"a">>, <<"a", "b", "a">>, <<"b", "b">>}}
  \cup {[types |-> q] : q \in {<<>>, <<"integer">>, <<"null", "string">>, <<"number">>, <<"number", "null">>, <<"integer", "number">>}}
  \cup {[type |-> "number"]}
  \cup {[defs |-> m] : m \in {EmptyFcn, [x |-> IntS], [x |-> FalseS]}}
  \cup {[definitions |-> m] : m \in {EmptyFcn, [x |-> TrueS]}}
  \cup {[properties |-> m] : m \in {EmptyFcn, [a |-> IntS], [a |-> FalseS, b |-> TrueS],
                                     ("C_01" :> IntS) @@ ("C_7f" :> TrueS), ("U_tag" :> IntS) @@ ("C_0b" :> FalseS) @@ ("C_07" :> TrueS)}}
  \cup {[patternProperties |-> m] : m \in {EmptyFcn, ("^a" :> IntS)}}
  \cup {[dependentRequired |-> m] : m \in {EmptyFcn, [a |-> <<>>], [a |-> <<"b">>]}}
  \cup {[dependentSchemas |-> m] : m \in {EmptyFcn, [a |-> FalseS]}}
  \* (2020-12: the two dependent* keywords are independent - one property name may occur in both)
  \cup {[dependentRequired |-> [a |-> <<"b">>], dependentSchemas |-> [a |-> [required |-> <<"b">>], b |-> FalseS]]}
  \cup {[depSchemas |-> m] : m \in {EmptyFcn, [a |-> FalseS]}}
  \cup {[depStrings |-> m] : m \in {EmptyFcn, [b |-> <<"a">>], [b |-> <<>>]}}
  \cup {[const |-> c] : c \in {Null, Num(R_0), Str(""), Bool(FALSE), EmptyArr, EmptyObj, Num(R_2p63), Num(R_2p53)}}
  \cup {[default |-> c] : c \in {Null, Num(R_1), Obj([a |-> Null])}}
  \cup {(kw :> k) : kw \in {"minLength", "maxLength", "minItems", "maxItems", "minContains", "maxContains", "minProperties", "maxProperties"}, k \in {0, 2}}
  \cup {(kw :> r) : kw \in {"multipleOf", "minimum", "maximum", "exclusiveMinimum", "exclusiveMaximum"}, r \in {R_1, R_h}}
  \cup {[minimum |-> R_0], [maximum |-> R_0], [exclusiveMinimum |-> R_0], [exclusiveMaximum |-> R_m1]}
  \cup {(kw :> b) : kw \in {"uniqueItems", "deprecated", "readOnly", "writeOnly"}, b \in BOOLEAN}
  \cup {(kw :> x) : kw \in {"title", "description", "comment", "format", "contentEncoding", "contentMediaType"}, x \in {"t"}}
  \cup {[pattern |-> "^a"], [anchor |-> "a"], [dynamicAnchor |-> "a"], [schema |-> D2020]}
  \cup {(kw :> l) : kw \in SingleKW, l \in {TrueS, FalseS, IntS, [not |-> TrueS]}}
  \cup {[extra |-> m] : m \in {[x |-> Num(R_1)], [x |-> Obj([type |-> Str("a")]), y |-> Null]}}
  \* Extra keys named like real keywords (alone: the struct part of the value is empty; in pairs and nested: it is not)
  \cup {[extra |-> m] : m \in {[minimum |-> Num(R_5)], [not |-> Bool(TRUE)], [type |-> Str("string")], [x |-> Num(R_1), minimum |-> Num(R_5)]}}
  \* PropertyOrder: shorter, equal and longer than properties, naming absent properties
  \cup {[properties |-> [a |-> IntS, b |-> [type |-> "string"]], propertyOrder |-> o] :
          o \in {<<"b">>, <<"b", "a">>, <<"a", "zz">>, <<"zz", "b", "yy">>, <<"zz">>, <<>>}}
\* 2020-only keywords inside a draft-07 document (and vice versa) are outside the quantifier
Only2020 == {"prefixItems", "unevaluatedItems", "unevaluatedProperties", "dependentRequired", "dependentSchemas", "minContains",
             "maxContains", "defs", "anchor", "dynamicAnchor"}
OnlyD7 == {"itemsArray", "additionalItems", "depSchemas", "depStrings", "definitions"}
RTOk(s) == /\ ~(DOMAIN s \cap Only2020 # {} /\ DOMAIN s \cap OnlyD7 # {})
           /\ ~({"type", "types"} \subseteq DOMAIN s) /\ ~({"items", "itemsArray"} \subseteq DOMAIN s)
           /\ ~({"defs", "definitions"} \subseteq DOMAIN s)
           /\ ~({"depSchemas", "depStrings"} \subseteq DOMAIN s /\ DOMAIN s.depSchemas \cap DOMAIN s.depStrings # {})
RTPairs == {x[1] @@ x[2] : x \in {y \in RTAtoms \X RTAtoms : DOMAIN y[1] \cap DOMAIN y[2] = {} /\ RTOk(y[1] @@ y[2])}}
\* "not": {} (the falsy form) next to other keywords: only the schema that is EXACTLY {"not": true} is written false
RTNotSibs == {[not |-> TrueS] @@ a : a \in {[title |-> "t"], [defs |-> [x |-> IntS]], [extra |-> [x |-> Num(R_1)]], [default |-> Null],
                                           [type |-> "number"], [properties |-> [a |-> IntS]], [anchor |-> "a"], [comment |-> "t"],
                                           [definitions |-> [x |-> TrueS]], [minimum |-> R_0], [deprecated |-> TRUE]}}
RTNested == {[properties |-> [a |-> a]] : a \in RTAtoms \cup RTNotSibs} \cup RTNotSibs \cup {[properties |-> [a |-> a]] : a \in RTAtoms} \cup {[items |-> a] : a \in RTAtoms} \cup {[allOf |-> <<a>>] : a \in RTAtoms}
RTValues(z) == IF K >= 2 THEN UNION {RTAtoms, RTPairs, RTNested} ELSE UNION {RTAtoms, RTNested}
RTInsts == <<Null, Num(R_0), Num(R_1), Num(R_3), Num(R_h), Str(""), Str("a"), Str("ab"), Bool(FALSE), EmptyArr, Arr(<<Num(R_1)>>),
             Arr(<<Num(R_1), Num(R_1)>>), Arr(<<Str("a"), Num(R_3), Num(R_1)>>), EmptyObj, Obj([a |-> Num(R_1)]), Obj([a |-> Str("a"), b |-> Num(R_1)]),
             Obj([b |-> Num(R_1)]), Obj([b |-> Str("a")]), Obj([b |-> Str("ab")]), Arr(<<Str("a"), Str("ab")>>), Arr(<<Str("b")>>),
             Obj([b |-> Obj([a |-> Num(R_1)])]), Obj([b |-> Obj([b |-> Num(R_1)])])>>
Single(s) == [docs |-> <<[uri |-> EmptyURI, s |-> s]>>]
\* draft-07-only keywords make sense only under the draft-07 $schema; the verdict
\* vector is taken under the draft the document declares
DrFor(s) == IF \E k \in {"itemsArray", "additionalItems", "depSchemas", "depStrings", "definitions"} : k \in DOMAIN s THEN "d7" ELSE "2020"
VerdDr(s, dr) == [i \in DOMAIN RTInsts |-> IF Ev(Single(s), dr, Addr(1, <<>>), RTInsts[i], <<>>).ok THEN "T" ELSE "F"]
Verd(s) == VerdDr(s, DrFor(s))
SingleU(uri, s) == [docs |-> <<[uri |-> uri, s |-> s]>>]
\* a case may bring Loader documents along (field rem)
RemOf(c) == IF "rem" \in DOMAIN c THEN c.rem ELSE <<>>
UnivOf(c, s) == [docs |-> <<[uri |-> c.uri, s |-> s]>> \o RemOf(c)]
VerdC(c, s) == [i \in DOMAIN RTInsts |-> IF Ev(UnivOf(c, s), "2020", Addr(1, <<>>), RTInsts[i], <<>>).ok THEN "T" ELSE "F"]
VerdU(uri, s) == [i \in DOMAIN RTInsts |-> IF Ev(SingleU(uri, s), "2020", Addr(1, <<>>), RTInsts[i], <<>>).ok THEN "T" ELSE "F"]
KeysOf(s) == IF "bool" \in DOMAIN s THEN {} ELSE Emitted(s)

\* ------------------------------------------------------------ DK: decorations (C18)
DKBases == {IntS, [properties |-> [a |-> IntS], required |-> <<"a">>], [items |-> [minimum |-> R_2]],
            [anyOf |-> <<StrS, [maximum |-> R_1]>>], [not |-> [type |-> "null"]], [additionalProperties |-> FalseS, properties |-> [a |-> TrueS]],
            [contains |-> EmptyFcn, unevaluatedItems |-> FalseS], [prefixItems |-> <<EmptyFcn>>, unevaluatedItems |-> [type |-> "string"]],
            [properties |-> [a |-> EmptyFcn], additionalProperties |-> EmptyFcn, unevaluatedProperties |-> FalseS],
            \* keywords that need Resolve-time preparation (regexps), after the decorated place in every walk order
            [items |-> [pattern |-> "b$"]], [properties |-> [a |-> EmptyFcn, b |-> [pattern |-> "b$"]]],
            [allOf |-> <<EmptyFcn, [pattern |-> "b$"]>>], [properties |-> [a |-> EmptyFcn, b |-> [patternProperties |-> ("^a" :> FalseS)]]],
            [anyOf |-> <<[type |-> "null"], [items |-> [pattern |-> "^a"], required |-> <<"zz">>]>>, patternProperties |-> ("^a" :> IntS)]}
DKDecos ==
  {[title |-> "t"], [description |-> "d"], [comment |-> "c"], [deprecated |-> TRUE], [readOnly |-> TRUE], [writeOnly |-> TRUE],
   [format |-> "email"], [format |-> "no-such-format"], [contentEncoding |-> "base64"], [contentMediaType |-> "application/json"],
   [contentSchema |-> FalseS], [contentSchema |-> [type |-> "null"]],
   [default |-> Null], [default |-> Str("a")], [default |-> Obj([zz |-> Num(R_1)])], [examples |-> <<Null, Str("a")>>], [examples |-> <<>>],
   [defs |-> [unused |-> FalseS]], [definitions |-> [unused |-> FalseS]], [defs |-> [unused |-> [type |-> "null"], u2 |-> FalseS]],
   \* combinations: no pair of non-asserting keywords is contradictory for the validator
   [readOnly |-> TRUE, writeOnly |-> TRUE], [deprecated |-> TRUE, readOnly |-> TRUE, writeOnly |-> TRUE, title |-> "t", description |-> "d"],
   [title |-> "t", description |-> "d", comment |-> "c", format |-> "email", contentEncoding |-> "base64", contentMediaType |-> "application/json",
    contentSchema |-> FalseS, default |-> Str("a"), examples |-> <<Null>>, deprecated |-> TRUE, readOnly |-> TRUE],
   [format |-> "date-time", contentEncoding |-> "no-such-encoding", contentMediaType |-> "no/such", default |-> Obj([zz |-> Null]), examples |-> <<>>]}
DKRawKeys ==
  {<<"x", Num(R_1)>>, <<"x", Null>>, <<"x", Obj([type |-> Str("a")])>>, <<"Type", Str("string")>>, <<"TYPE", Str("null")>>,
   <<"MINIMUM", Num(R_5)>>, <<"Minimum", Num(R_5)>>, <<"Required", Arr(<<Str("zz")>>)>>, <<"$REF", Str("#")>>, <<"ITEMS", Bool(FALSE)>>,
   <<"Enum", EmptyArr>>, <<"CONST", Num(R_1)>>, <<"Not", EmptyObj>>, <<"Properties", Obj([a |-> Bool(FALSE)])>>, <<"AllOf", Arr(<<Bool(FALSE)>>)>>,
   <<"MaxLength", Num(R_0)>>, <<"properties ", Obj([a |-> Bool(FALSE)])>>, <<"$Defs", Obj([x |-> Num(R_5)])>>, <<"Type", Num(R_5)>>,
   <<"MINIMUM", Str("a")>>, <<"x-vendor", Arr(<<Num(R_1), Null>>)>>, <<"", Num(R_1)>>, <<"U_e1", Bool(TRUE)>>,
   \* names that equal a keyword only under Unicode simple case folding ({ls} = U+017F long s, {kelvin} = U+212A)
   <<"item{ls}", Bool(FALSE)>>, <<"propertie{ls}", Obj([a |-> Bool(FALSE)])>>, <<"minItem{ls}", Num(R_5)>>, <<"$def{ls}", Obj([x |-> Num(R_5)])>>,
   <<"con{ls}t", Num(R_1)>>, <<"{kelvin}", Num(R_1)>>, <<"maxPropertie{ls}", Num(R_0)>>, <<"{ls}", Null>>}
DKRaw == {[rawkeys |-> <<[k |-> r[1], v |-> r[2]]>>] : r \in DKRawKeys}
            \cup (IF K >= 2 THEN {[rawkeys |-> <<[k |-> r[1], v |-> r[2]], [k |-> q[1], v |-> q[2]]>>] : r \in DKRawKeys, q \in {<<"TYPE", Str("null")>>, <<"x", Null>>}} \ {[rawkeys |-> <<[k |-> "TYPE", v |-> Str("null")], [k |-> "TYPE", v |-> Str("null")]>>], [rawkeys |-> <<[k |-> "x", v |-> Null], [k |-> "x", v |-> Null]>>]} ELSE {})
\* decorate the root, or any one subschema
DecorateAt(s, seg, deco) ==
  IF seg = <<>> THEN s @@ deco
  ELSE IF "i" \in DOMAIN seg[1] THEN [s EXCEPT ![seg[1].k][seg[1].i] = IF "bool" \in DOMAIN @ THEN @ ELSE @ @@ deco]
  ELSE IF "n" \in DOMAIN seg[1] THEN [s EXCEPT ![seg[1].k][seg[1].n] = IF "bool" \in DOMAIN @ THEN @ ELSE @ @@ deco]
  ELSE [s EXCEPT ![seg[1].k] = IF "bool" \in DOMAIN @ THEN @ ELSE @ @@ deco]
DKWhere == {<<>>} \cup {<<g>> : g \in UNION {ChildSegs(x) : x \in DKBases}}
DKCases == {[base |-> t[1], s |-> DecorateAt(t[1], t[2], t[3]), raw |-> ("rawkeys" \in DOMAIN t[3]), uri |-> EmptyURI] :
              t \in {x \in DKBases \X DKWhere \X (DKDecos \cup DKRaw) : x[2] = <<>> \/ x[2][1] \in ChildSegs(x[1])}}
\* a reference chain whose middle link lies in a resource that declares a $dynamicAnchor: the link is part
\* of the dynamic scope whether or not it carries anything besides its $ref
\*   root --$ref--> list#/$defs/entry --$ref--> generic (items: $dynamicRef #T, own T = {})
DKChainURI == URI("http", "h1", TRUE, <<"root.json">>)
DKChain(deco) ==
  [ref |-> Ref(RelRef(<<"list">>), FragPtr(<<SegN("defs", "entry")>>)),
   defs |-> [list |-> [id |-> IdOf(RelRef(<<"list">>)),
                       defs |-> [entry |-> [ref |-> Ref(RelRef(<<"generic">>), FragNone)] @@ deco,
                                 t |-> [dynamicAnchor |-> "T", type |-> "string"]]],
             generic |-> [id |-> IdOf(RelRef(<<"generic">>)), items |-> [dynamicRef |-> LocalRef(FragName("T"))],
                          defs |-> [t |-> [dynamicAnchor |-> "T"]]]]]
\* ... and a PLAIN $anchor of the same name in an inert spot of the outermost resource (an unreferenced $defs entry,
\* contentSchema) hides nothing: only $dynamicAnchor takes part in the dynamic scope
DKChainRootDeco == {[s |-> [DKChain(EmptyFcn) EXCEPT !.defs = @ @@ [zz |-> d]]] : d \in {[anchor |-> "T"], [anchor |-> "T", type |-> "object"], [anchor |-> "T", description |-> "d"]}}
                   \cup {[s |-> DKChain(EmptyFcn) @@ [contentSchema |-> [anchor |-> "T", type |-> "object"]]]}
DKChainRootCases == {[base |-> DKChain(EmptyFcn), s |-> x.s, raw |-> FALSE, uri |-> DKChainURI] : x \in DKChainRootDeco}
DKChainCases == {[base |-> DKChain(EmptyFcn), s |-> DKChain(d), raw |-> ("rawkeys" \in DOMAIN d), uri |-> DKChainURI] : d \in DKDecos \cup DKRaw}
\* an UNREFERENCED $defs entry that is a schema resource of its own ($id) and uses, inside, the same reference
\* text as the enclosing document ("#/$defs/name"): a fragment-only reference is relative to ITS resource
DKVendor(extra) ==
  [properties |-> [a |-> [ref |-> LocalRef(FragPtr(<<SegN("defs", "name")>>))]],
   defs |-> [name |-> StrS] @@ extra]
DKVendored == [vendored |-> [id |-> IdOf(URI("http", "h2", TRUE, <<"item.json">>)), defs |-> [name |-> IntS],
                             properties |-> [a |-> [ref |-> LocalRef(FragPtr(<<SegN("defs", "name")>>))]]]]
DKVendorCases == {[base |-> DKVendor(EmptyFcn), s |-> DKVendor(DKVendored), raw |-> FALSE, uri |-> DKChainURI],
                  [base |-> DKVendor(EmptyFcn), s |-> DKVendor(EmptyFcn), raw |-> FALSE, uri |-> DKChainURI]}
\* the evaluated-properties bookkeeping a Loader document relies on does not depend on what the ROOT document
\* happens to contain: root = a bare $ref to item.json (allOf + properties + unevaluatedProperties: false)
DKItemDoc == [uri |-> URI("http", "h1", TRUE, <<"item.json">>),
              s |-> [allOf |-> <<[properties |-> [a |-> IntS]]>>, properties |-> [b |-> TrueS], unevaluatedProperties |-> FalseS]]
DKRemoteRoot(deco) == [ref |-> Ref(RelRef(<<"item.json">>), FragNone)] @@ deco
DKRemoteDecos == DKDecos \cup DKRaw
                 \cup {[defs |-> [unused |-> [unevaluatedItems |-> FalseS]]], [definitions |-> [unused |-> [unevaluatedProperties |-> TrueS]]],
                       [contentSchema |-> [unevaluatedProperties |-> FalseS]], [defs |-> [unused |-> [properties |-> [zz |-> [unevaluatedItems |-> TrueS]]]]]}
DKRemoteCases == {[base |-> DKRemoteRoot(EmptyFcn), s |-> DKRemoteRoot(d), raw |-> ("rawkeys" \in DOMAIN d), uri |-> DKChainURI, rem |-> <<DKItemDoc>>]
                    : d \in DKRemoteDecos \cup {EmptyFcn}}
\* annotations with EQUAL values on sibling alternatives that fail for the same reason (whatever an error
\* message is built from, the count of failed alternatives is the count of alternatives)
DKTitled(deco) == [anyOf |-> <<StrS @@ deco, [type |-> "string", minLength |-> 3] @@ deco>>]
DKTitledCases == {[base |-> DKTitled(EmptyFcn), s |-> DKTitled(d), raw |-> FALSE, uri |-> EmptyURI]
                    : d \in {[title |-> "t"], [title |-> "t", description |-> "d"], [comment |-> "c"]}}
                 \cup {[base |-> DKTitled(EmptyFcn), s |-> DKTitled(EmptyFcn), raw |-> FALSE, uri |-> EmptyURI]}
\* one resource embedded TWICE (same $id, same content - what a bundler that inlines references leaves behind),
\* the decoration in only one of the copies: still one meaning
DKTwice(d1, d2) ==
  [properties |-> [a |-> [ref |-> Ref(RelRef(<<"item.json">>), FragNone)]],
   defs |-> [p |-> [id |-> IdOf(RelRef(<<"item.json">>)), type |-> "integer"] @@ d1,
             q |-> [id |-> IdOf(RelRef(<<"item.json">>)), type |-> "integer"] @@ d2]]
DKTwiceCases == {[base |-> DKTwice(EmptyFcn, EmptyFcn), s |-> DKTwice(x[1], x[2]), raw |-> ("rawkeys" \in DOMAIN x[1] \/ "rawkeys" \in DOMAIN x[2]), uri |-> DKChainURI]
                   : x \in ((DKDecos \cup DKRaw) \X {EmptyFcn}) \cup ({EmptyFcn} \X (DKDecos \cup DKRaw)) \cup {<<EmptyFcn, EmptyFcn>>}}
DKOk(c) == c.s # c.base

\* ------------------------------------------------------------ RD: documents (C05, other direction)
\* Marshal(Unmarshal(d)) is d up to the DOCUMENTED normalisations: boolean forms, integral floats,
\* omitted zero-valued keywords.  (Texts, because the normalisations are about spelling.)
RDCases == {
  \* unknown keywords hold ANY JSON value - numbers no float64 can hold included
  [doc |-> "{\"x-foo\":1e999}", norm |-> "{\"x-foo\":1e999}"],
  [doc |-> "{\"x-foo\":[1,{\"a\":-1e400}],\"type\":\"integer\"}", norm |-> "{\"x-foo\":[1,{\"a\":-1e400}],\"type\":\"integer\"}"],
  [doc |-> "{\"properties\":{\"a\":{\"x-n\":12345678901234567890123e400,\"x-m\":1.5}}}", norm |-> "{\"properties\":{\"a\":{\"x-n\":12345678901234567890123e400,\"x-m\":1.5}}}"],
  [doc |-> "true", norm |-> "true"],
  [doc |-> "false", norm |-> "false"],
  [doc |-> "{}", norm |-> "true"],
  [doc |-> "{\"not\":{}}", norm |-> "false"],
  [doc |-> "{\"not\":true}", norm |-> "false"],
  [doc |-> "{\"minLength\":2.0}", norm |-> "{\"minLength\":2}"],
  [doc |-> "{\"maxItems\":3.0,\"minItems\":0}", norm |-> "{\"maxItems\":3,\"minItems\":0}"],
  [doc |-> "{\"minimum\":1e2}", norm |-> "{\"minimum\":100}"],
  [doc |-> "{\"const\":1e19}", norm |-> "{\"const\":10000000000000000000}"],
  [doc |-> "{\"const\":18446744073709551616,\"enum\":[9223372036854775808,-1e25]}", norm |-> "{\"const\":18446744073709551616,\"enum\":[9223372036854775808,-1e25]}"],
  [doc |-> "{\"properties\":{\"a\":{\"const\":1e30,\"default\":1e30,\"examples\":[1e30]}}}", norm |-> "{\"properties\":{\"a\":{\"const\":1e30,\"default\":1e30,\"examples\":[1e30]}}}"],
  [doc |-> "{\"maxLength\":10.0}", norm |-> "{\"maxLength\":10}"],
  [doc |-> "{\"minItems\":100.0,\"maxItems\":100.00}", norm |-> "{\"minItems\":100,\"maxItems\":100}"],
  [doc |-> "{\"properties\":{\"a\":{\"maxProperties\":20.00,\"minProperties\":0.0}}}", norm |-> "{\"properties\":{\"a\":{\"maxProperties\":20,\"minProperties\":0}}}"],
  \* (an integer keyword spelled 1e1 - exponent, no point - is REFUSED by Unmarshal: outside "documents Unmarshal accepts")
  [doc |-> "{\"minContains\":10.0e0,\"maxContains\":1.0e1,\"contains\":{}}", norm |-> "{\"minContains\":10,\"maxContains\":10,\"contains\":true}"],
  [doc |-> "{\"minLength\":1000,\"maxLength\":1010.0}", norm |-> "{\"minLength\":1000,\"maxLength\":1010}"],
  [doc |-> "{\"multipleOf\":0.5}", norm |-> "{\"multipleOf\":0.5}"],
  [doc |-> "{\"items\":{}}", norm |-> "{\"items\":true}"],
  [doc |-> "{\"items\":[{},false]}", norm |-> "{\"items\":[true,false]}"],
  [doc |-> "{\"items\":[]}", norm |-> "{\"items\":[]}"],
  [doc |-> "{\"const\":null}", norm |-> "{\"const\":null}"],
  [doc |-> "{\"const\":0}", norm |-> "{\"const\":0}"],
  [doc |-> "{\"enum\":[]}", norm |-> "{\"enum\":[]}"],
  [doc |-> "{\"anyOf\":[]}", norm |-> "{\"anyOf\":[]}"],
  [doc |-> "{\"required\":[]}", norm |-> "true"],
  [doc |-> "{\"allOf\":[]}", norm |-> "true"],
  [doc |-> "{\"$defs\":{}}", norm |-> "true"],
  [doc |-> "{\"examples\":[]}", norm |-> "true"],
  [doc |-> "{\"properties\":{}}", norm |-> "{\"properties\":{}}"],
  [doc |-> "{\"uniqueItems\":false,\"deprecated\":false}", norm |-> "true"],
  [doc |-> "{\"uniqueItems\":true}", norm |-> "{\"uniqueItems\":true}"],
  [doc |-> "{\"type\":\"string\"}", norm |-> "{\"type\":\"string\"}"],
  [doc |-> "{\"type\":[\"string\"]}", norm |-> "{\"type\":[\"string\"]}"],
  [doc |-> "{\"type\":[]}", norm |-> "{\"type\":[]}"],
  [doc |-> "{\"default\":null}", norm |-> "{\"default\":null}"],
  [doc |-> "{\"default\":{\"a\":[1,2.50]}}", norm |-> "{\"default\":{\"a\":[1,2.50]}}"],
  [doc |-> "{\"dependencies\":{\"a\":[\"b\"],\"c\":{},\"d\":false}}", norm |-> "{\"dependencies\":{\"a\":[\"b\"],\"c\":true,\"d\":false}}"],
  [doc |-> "{\"x\":1,\"title\":\"t\",\"y\":{\"type\":5}}", norm |-> "{\"title\":\"t\",\"x\":1,\"y\":{\"type\":5}}"],
  [doc |-> "{\"properties\":{\"b\":{},\"a\":false}}", norm |-> "{\"properties\":{\"a\":false,\"b\":true}}"],
  [doc |-> "{\"if\":{},\"then\":false,\"else\":{\"not\":{}}}", norm |-> "{\"if\":true,\"then\":false,\"else\":false}"],
  [doc |-> "{\"$schema\":\"https://json-schema.org/draft/2020-12/schema\",\"$id\":\"http://h/x\",\"$anchor\":\"a\",\"$comment\":\"c\"}", norm |-> "{\"$schema\":\"https://json-schema.org/draft/2020-12/schema\",\"$id\":\"http://h/x\",\"$anchor\":\"a\",\"$comment\":\"c\"}"],
  [doc |-> "{\"minContains\":0,\"contains\":{\"const\":null}}", norm |-> "{\"minContains\":0,\"contains\":{\"const\":null}}"],
  [doc |-> "{\"title\":\"\",\"description\":\"\",\"format\":\"\"}", norm |-> "true"],
  \* unknown keywords are kept verbatim, whatever they resemble (letter case, Unicode case folding)
  [doc |-> "{\"not\":{},\"title\":\"t\"}", norm |-> "{\"not\":true,\"title\":\"t\"}"],
  [doc |-> "{\"not\":{},\"x-reason\":\"closed\"}", norm |-> "{\"not\":true,\"x-reason\":\"closed\"}"],
  [doc |-> "{\"properties\":{\"a\":{\"$ref\":\"#/$defs/closed/$defs/str\"}},\"$defs\":{\"closed\":{\"not\":{},\"$defs\":{\"str\":{\"type\":\"string\"}}}}}",
   norm |-> "{\"properties\":{\"a\":{\"$ref\":\"#/$defs/closed/$defs/str\"}},\"$defs\":{\"closed\":{\"not\":true,\"$defs\":{\"str\":{\"type\":\"string\"}}}}}"],
  [doc |-> "{\"not\":{\"not\":{}}}", norm |-> "{\"not\":false}"],
  [doc |-> "{\"Type\":\"string\"}", norm |-> "{\"Type\":\"string\"}"],
  [doc |-> "{\"ITEMS\":false,\"items\":true}", norm |-> "{\"ITEMS\":false,\"items\":true}"],
  [doc |-> "{\"item\\u017f\":{\"type\":\"string\"}}", norm |-> "{\"item\\u017f\":{\"type\":\"string\"}}"],
  [doc |-> "{\"minItem\\u017f\":3}", norm |-> "{\"minItem\\u017f\":3}"],
  [doc |-> "{\"$def\\u017f\":{\"a\":{}},\"propertie\\u017f\":{\"a\":false}}", norm |-> "{\"$def\\u017f\":{\"a\":{}},\"propertie\\u017f\":{\"a\":false}}"],
  [doc |-> "{\"\\u212a\":1,\"\\u017f\":[null]}", norm |-> "{\"\\u212a\":1,\"\\u017f\":[null]}"],
  [doc |-> "{\"properties\":{\"a\":{\"enu\\u1e9e\":[],\"con\\u017ft\":1}}}", norm |-> "{\"properties\":{\"a\":{\"enu\\u1e9e\":[],\"con\\u017ft\":1}}}"]}

\* documents whose ACCEPTANCE the property leaves open (a subschema value Unmarshal may refuse: an integer keyword beyond
\* the int range, a fraction, exponent spelling, an ill-typed value, a non-schema), under every subschema-bearing
\* keyword.  What it does fix: IF Unmarshal accepts, Marshal reproduces the document (norm = doc, opt = accept or refuse)
RDBadSubs == {"{\"type\":\"string\",\"maxLength\":4294967296}", "{\"pattern\":\"^a\",\"minLength\":1e2}", "{\"minLength\":1.5}",
              "{\"type\":1}", "5", "{\"required\":\"a\"}", "{\"minimum\":\"1\",\"type\":\"number\"}"}
RDWrapPre == {"{\"items\":", "{\"type\":\"array\",\"items\":", "{\"additionalProperties\":", "{\"not\":", "{\"contains\":", "{\"propertyNames\":",
              "{\"if\":", "{\"unevaluatedItems\":", "{\"unevaluatedProperties\":", "{\"additionalItems\":", "{\"contentSchema\":",
              "{\"then\":", "{\"else\":"}
\* known finding KF-examples-C18: "examples" (a non-asserting keyword holding any JSON values) with a number no float64 holds
RDKnownCases == {[doc |-> "{\"examples\":[1e999]}", norm |-> "{\"examples\":[1e999]}", feat |-> "examples-beyond-float64", featprop |-> "C18"],
                 [doc |-> "{\"type\":\"integer\",\"examples\":[1,{\"a\":-1e400}]}", norm |-> "{\"type\":\"integer\",\"examples\":[1,{\"a\":-1e400}]}",
                  feat |-> "examples-beyond-float64", featprop |-> "C18"]}
RDOptCases == {[doc |-> w \o b \o "}", norm |-> w \o b \o "}", opt |-> TRUE] : w \in RDWrapPre, b \in RDBadSubs}
              \cup {[doc |-> "{\"properties\":{\"a\":" \o b \o "}}", norm |-> "{\"properties\":{\"a\":" \o b \o "}}", opt |-> TRUE] : b \in RDBadSubs}
              \cup {[doc |-> "{\"allOf\":[" \o b \o "]}", norm |-> "{\"allOf\":[" \o b \o "]}", opt |-> TRUE] : b \in RDBadSubs}
              \cup {[doc |-> "{\"items\":{\"items\":" \o b \o "}}", norm |-> "{\"items\":{\"items\":" \o b \o "}}", opt |-> TRUE] : b \in RDBadSubs}
              \cup {[doc |-> "{\"$defs\":{\"x\":" \o b \o "}}", norm |-> "{\"$defs\":{\"x\":" \o b \o "}}", opt |-> TRUE] : b \in RDBadSubs}
Cases == CASE Family = "PO" -> POCases
           [] Family = "RD" -> RDCases \cup RDOptCases \cup RDKnownCases
           [] Family = "RT" -> {[s |-> v] : v \in {x \in RTValues(0) : RTOk(x)}}
           \* (the undecorated bases are replayed as well: "with and without the decoration" has two sides)
           [] Family = "DK" -> {c \in DKCases \cup DKChainCases : DKOk(c)}
                               \cup {[base |-> b, s |-> b, raw |-> FALSE, uri |-> EmptyURI] : b \in DKBases}
                               \cup {[base |-> DKChain(EmptyFcn), s |-> DKChain(EmptyFcn), raw |-> FALSE, uri |-> DKChainURI]}
                               \cup DKVendorCases \cup DKRemoteCases \cup DKTitledCases \cup DKTwiceCases \cup DKChainRootCases

Init == cs \in Cases /\ phase = "new"
Next == phase = "new" /\ phase' = "done" /\ cs' = cs
Spec == Init /\ [][Next]_vars

OrderRefines ==
  (Family = "PO" /\ phase = "done") =>
     KeyOrderCode({cs.props[i] : i \in DOMAIN cs.props}, cs.order) = cs.exp

\* C05 on the model: Unm(Mar(s)) keeps the meaning, and marshaling is idempotent
RoundTripKeepsMeaning ==
  (Family = "RT" /\ phase = "done" /\ ~MarErr(cs.s)) =>
     \* (the draft is a property of the document - its $schema - not of which keywords survive)
     /\ VerdDr(RoundTrip(cs.s), DrFor(cs.s)) = Verd(cs.s)
     /\ Mar(RoundTrip(cs.s)) = Mar(cs.s)
\* ... and keeps every keyword (up to the documented omissions: empty non-asserting lists and maps, false flags)
KeepsKeywords ==
  (Family = "RT" /\ phase = "done" /\ "bool" \notin DOMAIN cs.s /\ ~MarErr(cs.s)) =>
     LET m == Mar(cs.s)
     IN /\ "bool" \notin DOMAIN m
        /\ DOMAIN m = {k \in DOMAIN cs.s :
                         IF k \in (OmitEmptySeq \cup OmitEmptyMap) \ AssertingLists THEN ~IsEmptyVal(cs.s[k])
                         ELSE IF k \in {"depSchemas", "depStrings"} THEN ~IsEmptyVal(cs.s[k])
                         ELSE IF k \in {"uniqueItems", "deprecated", "readOnly", "writeOnly"} THEN cs.s[k]
                         ELSE k # "propertyOrder"}
\* C18 on the model: a decoration never changes a verdict, and a key is read as
\* a keyword only if it is exactly the keyword
DecorationInert ==
  (Family = "DK" /\ phase = "done") =>
     /\ VerdC(cs, cs.s) = VerdC(cs, cs.base)
     /\ \A p \in AllPaths(cs.s) : "rawkeys" \in DOMAIN NodeAtS(cs.s, p) =>
           \A i \in DOMAIN NodeAtS(cs.s, p).rawkeys :
              LET k == NodeAtS(cs.s, p).rawkeys[i].k
              IN (k \in DOMAIN Lower /\ ReadAsKeyword(k)) => k \in KeywordNames

Emit ==
  phase = "done" =>
    PrintT(<<"CASE", ToJson(
      CASE Family = "PO" -> cs
        [] Family = "RD" -> cs
        [] Family = "RT" -> [s |-> cs.s, dr |-> DrFor(cs.s), exp |-> Verd(cs.s), keys |-> SetToSeq(KeysOf(cs.s)),
                             marshal |-> IF MarErr(cs.s) THEN "err" ELSE "ok"]
        [] Family = "DK" -> [u |-> UnivOf(cs, cs.s), base |-> cs.base, exp |-> VerdC(cs, cs.base), dr |-> "2020"])>>)

ASSUME Family \in {"RT", "DK"} => PrintT(<<"INSTS", ToJson(RTInsts)>>)
====
