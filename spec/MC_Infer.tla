---- MODULE MC_Infer ----
(***************************************************************************)
(* C04 / C09 / C16.  For every type T of the universe:                     *)
(*  Sound     every value's encoding validates against the CODE-shaped     *)
(*            inferred schema:  Valid(InferCode(T), Enc(T, v))      (C04)  *)
(*  SpecEq    InferCode(T) = InferSpec(T)                           (C16)  *)
(*  and a CASE line carrying T, InferSpec(T), the values with their        *)
(*  predicted encodings; the harness generates Go source for T, builds the *)
(*  values, and compares the real ForType / json.Marshal / Validate /      *)
(*  Decoder(DisallowUnknownFields) with the predictions.                   *)
(***************************************************************************)
EXTENDS Infer, Json, SequencesExt

CONSTANTS Family, K, CheckKnown

VARIABLES cs, phase
vars == <<cs, phase>>

Prims == {Prim(p) : p \in {"bool", "int", "int8", "int16", "int32", "int64", "uint", "uint8", "uint16", "uint32", "uint64",
                           "uintptr", "float32", "float64", "string"}}
SomePrims == {Prim("int8"), Prim("uint16"), Prim("string"), Prim("float64"), Prim("bool"), Prim("int")}
Inner == Struct("Inner", <<Field("X", "x", {}, Prim("int8")), Field("Y", "", {"omitempty"}, Prim("string"))>>)
Emb == Struct("Emb", <<Field("A", "", {}, Prim("int8")), Field("B", "b", {"omitempty"}, Prim("string"))>>)
Emb2 == Struct("Emb2", <<Field("A", "", {}, Prim("uint16")), Field("C", "c", {}, Prim("bool"))>>)
\* non-struct types, nested to depth 2
T1 == Prims \cup {Iface, Struct("Empty", <<>>), MapOf(Struct("Empty", <<>>)), Array(Prim("uint8"), 3), Array(Array(Prim("uint8"), 2), 2)} \cup {Std(w) : w \in {"time", "level"}}
      \cup {Ptr(Std(w)) : w \in {"bigint", "bigrat", "bigfloat", "time"}}
T2 == {Ptr(t) : t \in SomePrims \cup {Iface}} \cup {Slice(t) : t \in SomePrims \cup {Iface}}
      \cup {Array(t, 2) : t \in {Prim("int8"), Prim("string")}} \cup {MapOf(t) : t \in SomePrims \cup {Iface}}
      \* maps whose values are nullable unbounded scalars (additionalProperties: {"type": ["null", X]})
      \cup {MapOf(Ptr(Prim(p))) : p \in {"string", "bool", "int", "float64"}}
T3 == {Ptr(Ptr(Prim("int8"))), Slice(Ptr(Prim("uint8"))), Slice(Slice(Prim("string"))), MapOf(Slice(Prim("int16"))),
       Ptr(Slice(Prim("int32"))), Slice(MapOf(Prim("uint32"))), MapOf(MapOf(Prim("bool"))), Ptr(MapOf(Prim("float32"))),
       Array(Ptr(Prim("int64")), 2), MapOf(Ptr(Prim("string"))), Ptr(Inner), Slice(Inner), MapOf(Inner), Slice(Ptr(Inner))}
\* field types inside structs
FT == {Prim("int8"), Prim("uint64"), Prim("string"), Prim("bool"), Prim("float32"), Ptr(Prim("int16")), Slice(Prim("string")),
       MapOf(Prim("int")), Iface, Inner, Ptr(Inner), Array(Prim("uint8"), 2), Std("time"), Ptr(Std("bigint")), Ptr(Prim("string")),
       Ptr(Slice(Prim("string"))), Ptr(Ptr(Prim("int8"))), Ptr(MapOf(Prim("bool"))), Ptr(Iface),
       Struct("Empty", <<>>), MapOf(Struct("Empty", <<>>)), Slice(Struct("Empty", <<>>)), Slice(Array(Prim("uint8"), 2)),
       \* zero-length arrays: always "empty" for omitempty (encoding/json tests Len() = 0), never "zero"-skipped otherwise
       Array(Prim("string"), 0), Array(Inner, 0)}
TagForms == {<<"", {}>>, <<"n", {}>>, <<"", {"omitempty"}>>, <<"", {"omitzero"}>>, <<"n", {"omitempty", "omitzero"}>>}
\* one-field structs: every field type x every tag form, plus "-", "-," and unexported
S1 == {Struct("S", <<Field("F", tf[1], tf[2], t)>>) : t \in FT, tf \in TagForms}
      \cup {Struct("S", <<[Field("F", "", {}, t) EXCEPT !.dash = d]>>) : t \in {Prim("int8"), Inner}, d \in {"dash", "dashcomma"}}
      \cup {Struct("S", <<[Field("f", "", {}, Prim("int8")) EXCEPT !.exp = FALSE], Field("G", "", {}, Prim("string"))>>)}
\* two/three-field structs: order, required, omit combinations
S2 == {Struct("S", <<Field("A", tf1[1], tf1[2], t1), Field("B", "", tf2[2], t2)>>) :
         t1 \in {Prim("int8"), Ptr(Prim("string")), Slice(Prim("int8"))}, t2 \in {Prim("uint16"), Iface, Inner},
         tf1 \in TagForms, tf2 \in {<<"", {}>>, <<"", {"omitempty"}>>}}
\* embedding: by value / by pointer, promoted and shadowed names
S3 == {Struct("S", <<Embed("Emb", how, Emb), Field("Z", "", {}, Prim("bool"))>>) : how \in {"value", "ptr"}}
      \cup {Struct("S", <<Field("A", "", {}, Prim("string")), Embed("Emb", how, Emb)>>) : how \in {"value", "ptr"}}      \* outer A shadows Emb.A (Go name)
      \cup {Struct("S", <<Embed("Emb", how, Emb), Field("A", "", {}, Prim("string"))>>) : how \in {"value", "ptr"}}
      \cup {Struct("S", <<Embed("Emb", "value", Emb), Embed("Emb2", "value", Emb2)>>)}                                    \* A ambiguous at depth 1: dropped
\* one named struct type reached several times (value first / pointer first / under containers):
\* every occurrence is inferred on its own terms (a pointer occurrence admits null whatever came before)
S5 == {Struct("S", <<Field("A", "", {}, Inner), Field("B", "", {}, Ptr(Inner))>>),
       Struct("S", <<Field("A", "", {}, Ptr(Inner)), Field("B", "", {}, Inner), Field("C", "", {}, Slice(Ptr(Inner)))>>),
       Struct("S", <<Field("A", "", {}, Inner), Field("C", "", {}, Slice(Ptr(Inner))), Field("M", "", {}, MapOf(Ptr(Inner)))>>),
       Struct("S", <<Field("A", "", {}, Slice(Inner)), Field("B", "b", {"omitempty"}, Ptr(Inner)), Field("C", "", {}, Ptr(Inner))>>),
       Struct("S", <<Embed("Emb", "value", Emb), Field("P", "", {}, Ptr(Emb)), Field("Q", "", {}, Slice(Ptr(Emb)))>>),
       Slice(Struct("S", <<Field("A", "", {}, Inner), Field("B", "", {}, Ptr(Inner))>>))}
\* several fields carrying byte-identical tags without a name (",omitempty" / ",omitzero" / ","): each keeps
\* ITS OWN Go name as the property name, in this struct and in nested ones
S6 == {Struct("S", <<Field("A", "", {"omitempty"}, Prim("int8")), Field("B", "", {"omitempty"}, Prim("string")),
                     Field("C", "", {"omitzero"}, Prim("bool")), Field("D", "", {"omitzero"}, Slice(Prim("string")))>>),
       Struct("S", <<Field("Count", "", {"omitzero"}, Prim("int")), Field("Label", "", {"omitzero"}, Prim("string")),
                     Field("In", "", {}, Struct("Lim", <<Field("Lo", "", {"omitempty"}, Prim("uint8")), Field("Hi", "", {"omitempty"}, Prim("float64"))>>))>>)}
\* white space inside tags is part of what it touches: " b" and " -" are NAMES (the latter does not omit the field),
\* " omitempty" / " omitzero" are options encoding/json does not know (the field stays required)
S8 == {Struct("S", <<Field("A", " b", {}, Prim("int8")), Field("B", " -", {}, Prim("string")), Field("C", "c", {" omitempty"}, Prim("int8")),
                     Field("D", "", {" omitzero"}, Prim("string")), Field("E", "e ", {"omitempty"}, Prim("bool"))>>),
       Struct("S", <<Field("A", " ", {}, Prim("int8")), Field("In", " in", {" omitempty", "omitzero"}, Struct("In8", <<Field("X", " x", {}, Prim("uint8"))>>))>>)}
\* two levels of embedding with one JSON name claimed at depth 1 and at depth 2 (different Go names): the
\* shallower field is the one encoding/json emits. (Family X: the known finding KF-jsonname - here the code gets the
\* property's schema right and lists the name twice in "required")
Aud == Struct("Aud", <<Field("Stamp", "rev", {}, Prim("string"))>>)
Mid2 == Struct("Mid2", <<Embed("Aud", "value", Aud), Field("Revision", "rev", {}, Prim("int8")), Field("Owner", "", {}, Prim("string"))>>)
S7 == {Struct("S", <<Embed("Mid2", "value", Mid2), Field("Title", "", {}, Prim("string"))>>),
       Struct("S", <<Embed("Mid2", "ptr", Mid2), Field("Title", "", {}, Prim("string"))>>),
       Slice(Struct("S", <<Embed("Mid2", "value", Mid2)>>))}
\* one JSON name claimed by two fields (dominant-field rule on JSON names), and a tagged embedded field
S4 == {Struct("S", <<Field("P", "b", {}, Prim("int8")), Embed("Emb", "value", Emb)>>),          \* outer "b" (depth 0) vs Emb.B "b" (depth 1)
       Struct("S", <<Embed("Emb", "value", Emb), Field("P", "b", {}, Prim("int8"))>>),
       Struct("S", <<Field("P", "x", {}, Prim("int8")), Field("Q", "x", {}, Prim("string"))>>),  \* same depth, both tagged: both dropped
       Struct("S", <<Field("X", "", {}, Prim("int8")), Field("Q", "X", {"omitempty"}, Prim("string"))>>), \* untagged X vs tagged "X": tagged wins
       Struct("S", <<[Embed("Emb", "value", Emb) EXCEPT !.tag = "emb"], Field("Z", "", {}, Prim("bool"))>>)}   \* tagged embedded = a named field


\* ------------------------------------------------------------ O: ForOptions (C16)
Named(nm, t) == [k |-> "named", name |-> nm, e |-> t]
RecT == [k |-> "rec"]
Callback == Named("Callback", Bad("func"))
Index == Named("Index", Bad("mapint"))
OBad == {Bad(w) : w \in {"chan", "func", "complex", "mapint"}}
        \cup {Slice(Bad("func")), MapOf(Bad("chan")), Ptr(Bad("complex")), Array(Bad("func"), 2), Slice(Slice(Bad("mapint")))}
        \cup {Struct("S", <<Field("F", "", {}, b), Field("G", "", {}, Prim("int8"))>>) : b \in {Bad("func"), Slice(Bad("chan")), MapOf(Bad("func")), Ptr(Bad("complex"))}}
        \cup {Struct("S", <<Field("F", "", {}, Callback), Field("G", "", {}, Callback), Field("H", "", {}, Prim("int8"))>>),
              Struct("S", <<Field("F", "", {}, Callback), Field("G", "", {}, Slice(Callback))>>),
              Struct("S", <<Field("F", "", {}, MapOf(Index)), Field("G", "", {}, Index), Field("H", "h", {"omitempty"}, Prim("string"))>>),
              Struct("S", <<Field("F", "", {}, Slice(Callback)), Field("G", "", {}, Ptr(Callback))>>),
              Slice(Struct("S", <<Field("F", "", {}, Callback), Field("G", "", {}, Callback)>>))}
ORec == {Struct("Rec", <<Field("Next", "", {}, Ptr(RecT)), Field("V", "", {}, Prim("int8"))>>),
         Struct("Rec", <<Field("Kids", "", {}, Slice(RecT))>>),
         Struct("Rec", <<Field("M", "", {}, MapOf(RecT)), Field("V", "", {}, Prim("string"))>>),
         Struct("Rec", <<Field("W", "", {}, Struct("Wrap", <<Field("R", "", {}, Ptr(RecT))>>))>>),
         Slice(Struct("Rec", <<Field("Next", "", {}, Ptr(RecT))>>)),
         \* mutual recursion of two named types (up = 2: the back edge goes to the OUTER of the two)
         Struct("Rec", <<Field("B", "", {}, Ptr(Struct("Rec", <<Field("A", "", {}, Ptr([k |-> "rec", up |-> 2])), Field("V", "", {}, Prim("int8"))>>))),
                         Field("W", "", {}, Prim("string"))>>),
         Struct("Rec", <<Field("Kids", "", {}, Slice(Struct("Rec", <<Field("Parent", "", {}, Ptr([k |-> "rec", up |-> 2])), Field("Sib", "", {}, Ptr(RecT))>>)))>>),
         MapOf(Struct("Rec", <<Field("M", "", {}, MapOf(Struct("Rec", <<Field("Back", "", {}, Slice([k |-> "rec", up |-> 2]))>>)))>>)),
         \* recursion that passes through no struct at all: defined array / slice / map types containing themselves
         Named("Rec", Array(Ptr(RecT), 2)), Named("Rec", Slice(RecT)), Named("Rec", MapOf(RecT)), Named("Rec", Slice(Ptr(RecT))),
         Named("Rec", Array(Ptr(Named("Rec", Array(Ptr([k |-> "rec", up |-> 2]), 3))), 1)),
         Ptr(Named("Rec", Array(Ptr(RecT), 1))),
         \* ... nor through any container: defined POINTER types (type P *P; type P **P; type A *B, type B *A)
         Named("Rec", Ptr(RecT)), Named("Rec", Ptr(Ptr(RecT))), Named("Rec", Ptr(Named("Rec", Ptr([k |-> "rec", up |-> 2])))),
         Struct("S", <<Field("R", "", {}, Named("Rec", Ptr(RecT))), Field("V", "", {}, Prim("int8"))>>), Slice(Named("Rec", Ptr(RecT))),
         Struct("S", <<Field("R", "", {}, Named("Rec", Array(Ptr(RecT), 2))), Field("V", "", {}, Prim("int8"))>>)}
\* a named type occurring several times is NOT a cycle
OMany == {Struct("S", <<Field("A", "", {}, Inner), Field("B", "", {}, Inner), Field("C", "", {}, Slice(Inner)), Field("D", "", {}, Ptr(Inner))>>),
          Struct("S", <<Field("A", "", {}, MapOf(Inner)), Field("B", "", {}, Array(Inner, 2))>>)}
OTS == {Inner, Ptr(Inner), Slice(Inner), MapOf(Ptr(Inner)), Struct("S", <<Field("A", "", {}, Inner), Field("B", "b", {"omitempty"}, Ptr(Inner))>>),
        Struct("S", <<Embed("Emb", "value", Emb), Field("Z", "", {}, Prim("bool"))>>),
        Struct("S", <<Field("Z", "", {}, Prim("bool")), Embed("Emb", "ptr", Emb)>>)}
Inner2 == Struct("Inner2", <<Field("X", "", {}, Prim("int8"))>>)
Mid == Struct("Mid", <<Field("A", "", {}, Prim("int8")), Embed("Inner2", "value", Inner2), Field("Y", "", {}, Prim("string"))>>)
OTS2 == {Struct("S", <<Embed("Mid", "value", Mid), Field("Z", "", {}, Prim("bool"))>>),
         Struct("S", <<Field("Z", "", {}, Prim("bool")), Embed("Mid", "value", Mid)>>), Mid}
TSConfs == [inner2Emb |-> [Inner2 |-> [type |-> "object", properties |-> [X |-> [type |-> "string"]]]],
            none |-> EmptyFcn,
            innerTyped |-> [Inner |-> [type |-> "object", description |-> "custom"]],
            innerUntyped |-> [Inner |-> [description |-> "custom"]],
            innerTypes |-> [Inner |-> [types |-> <<"object", "string">>]],
            \* (the JSON type of the values LAST in the list; three types: lists a decoder leaves with spare capacity)
            innerTypesLast |-> [Inner |-> [types |-> <<"string", "number", "object">>]],
            embOverride |-> [Emb |-> [type |-> "object", properties |-> [q |-> [type |-> "string"], p |-> [type |-> "integer"]]]],
            \* entries for types that have a built-in translation (time.Time, *big.Int): the entry wins
            \* entries for named types of UNSUPPORTED kinds (type Callback func(); type Index map[int]string)
            badOverride |-> ("named:Callback" :> [type |-> "string"]) @@ ("named:Index" :> [type |-> "object", description |-> "by code"]),
            ptrOverride |-> ("named:PInt" :> [type |-> "string", description |-> "by code"]),
            stdOverride |-> ("std:time" :> [type |-> "string", format |-> "date-time"]) @@ ("std:bigint" :> [type |-> "integer"])]
OTSStd == {Std("time"), Ptr(Std("time")), Slice(Std("time")), MapOf(Ptr(Std("time"))),
           Struct("S", <<Field("When", "", {}, Std("time")), Field("Until", "u", {"omitempty"}, Ptr(Std("time"))), Field("N", "", {}, Ptr(Std("bigint"))),
                         Field("L", "", {}, Std("level"))>>)}
\* jsonschema struct tags
DescF(go, t, d) == Field(go, "", {}, t) @@ [desc |-> d]
ODesc == {Struct("S", <<DescF("A", Prim("int8"), d), Field("B", "b", {"omitempty"}, Prim("string"))>>) : d \in {"the a", "", "k=v", "a=b c", "a b=c", " x=y"}}
         \cup {Struct("S", <<DescF("A", Inner, "inner one"), DescF("B", Slice(Prim("string")), "tags")>>),
               Struct("S", <<DescF("A", Bad("func"), "k=v"), Field("B", "", {}, Prim("int8"))>>),
               \* a described field of an unsupported type: dropped under IgnoreInvalidTypes, an error otherwise
               Struct("S", <<DescF("A", Bad("func"), "the a"), Field("B", "", {}, Prim("int8"))>>),
               Struct("S", <<Field("B", "", {}, Prim("int8")), DescF("M", Bad("mapint"), "by code"), DescF("C", Slice(Bad("chan")), "chans")>>),
               Slice(Struct("S", <<DescF("A", Ptr(Bad("complex")), "z"), DescF("B", Prim("string"), "kept")>>)),
               Struct("S", <<DescF("W", Struct("Wrap", <<DescF("F", Bad("func"), "cb"), Field("V", "", {}, Prim("int8"))>>), "wrapped")>>)}
\* a DEFINED POINTER type (type PInt *int8) with an entry: "every TypeSchemas entry substituted wherever its type occurs"
PInt == Named("PInt", Ptr(Prim("int8")))
OPtrNamed == {PInt, Ptr(PInt), Slice(PInt), MapOf(PInt),
              Struct("S", <<Field("A", "", {}, PInt), Field("B", "b", {"omitempty"}, Ptr(PInt)), Field("V", "", {}, Prim("int8"))>>)}
ONamedBad == {Callback, Ptr(Callback), Slice(Callback), MapOf(Index), Index,
              Struct("S", <<Field("F", "", {}, Callback), Field("G", "g", {"omitempty"}, Ptr(Callback)), Field("H", "", {}, Prim("int8")), Field("I", "", {}, Slice(Index))>>)}
OCases == {[t |-> t, ign |-> ign, tsn |-> "badOverride"] : t \in ONamedBad, ign \in BOOLEAN} \cup {[t |-> t, ign |-> ign, tsn |-> "none"] : t \in ODesc, ign \in BOOLEAN} \cup {[t |-> t, ign |-> ign, tsn |-> "none"] : t \in UNION {OBad, ORec, OMany}, ign \in BOOLEAN}
          \cup {[t |-> t, ign |-> FALSE, tsn |-> c] : t \in OTS, c \in {"innerTyped", "innerUntyped", "innerTypes", "innerTypesLast", "embOverride"}}
          \cup {[t |-> t, ign |-> FALSE, tsn |-> c] : t \in OTS2, c \in {"inner2Emb", "none"}}
          \cup {[t |-> t, ign |-> FALSE, tsn |-> c] : t \in OPtrNamed, c \in {"ptrOverride", "none"}}
          \cup {[t |-> t, ign |-> FALSE, tsn |-> c] : t \in OTSStd, c \in {"stdOverride", "none"}}

Types(z) ==
  CASE Family = "T" -> IF K >= 2 THEN UNION {T1, T2, T3} ELSE UNION {T1, T2}
    [] Family = "S" -> IF K >= 2 THEN UNION {S1, S2, S3, S5, S6, S8} ELSE UNION {S1, S3, S5, S6, S8}
    [] Family = "X" -> S4 \cup S7
    [] Family = "O" -> OCases

Init == cs \in Types(0) /\ phase = "new"
Next == phase = "new" /\ phase' = "done" /\ cs' = cs
Spec == Init /\ [][Next]_vars

Single(s) == [docs |-> <<[uri |-> EmptyURI, s |-> s]>>]
Vals == IF Family = "O" THEN <<>> ELSE SetToSeq(Values(cs, 0))
Accepts(s, d) == Ev(Single(Strip(s)), "2020", Addr(1, <<>>), d, <<>>).ok

\* Known findings (kept as named deviations, see known_findings.json):
\*  KF-bigint   *big.Int marshals to a JSON number but its schema says "string"
\*  KF-jsonname one JSON name claimed by two fields / a tagged embedded field (family X)
\* With CheckKnown = TRUE the invariants cover them too and TLC must report them.
RECURSIVE HasBigInt(_)
HasBigInt(t) ==
  CASE t.k = "std" -> t.w = "bigint"
    [] t.k \in {"ptr", "slice", "array", "map"} -> HasBigInt(t.e)
    [] t.k = "struct" -> \E i \in DOMAIN t.fields : HasBigInt(t.fields[i].t)
    [] OTHER -> FALSE
Exempt == Family = "O" \/ (~CheckKnown /\ (HasBigInt(cs) \/ Family = "X"))

\* C04 on the model
\* (under the legacy setting nil slices and nil std pointers encode null, which those schemas reject:
\* the reason the default changed - only C16 clauses apply there)
Sound == (phase = "done" /\ ~Exempt /\ ~LegacyNull) => \A i \in DOMAIN Vals : Accepts(InferCode(cs), Enc(cs, Vals[i]))
\* C16 on the model
SpecEq == (phase = "done" /\ ~Exempt) => InferCode(cs) = InferSpec(cs)

Emit == phase = "done" =>
  IF Family = "O" THEN
    LET r == InferOpt(cs.t, cs.ign, TSConfs[cs.tsn])
        \* values of the type against the schema the options produce (C04 with ForOptions): wherever the SPECIFIED
        \* result accepts the encoding, the real one must (entries for user struct types only)
        withVals == IsOk(r) /\ cs.tsn \in {"innerTyped", "innerUntyped", "innerTypes", "innerTypesLast"}
        vs == IF withVals THEN SetToSeq(Values(cs.t, 0)) ELSE <<>>
    IN PrintT(<<"CASE", ToJson([t |-> cs.t, fam |-> "O", ign |-> cs.ign, tsn |-> cs.tsn, ts |-> TSConfs[cs.tsn],
                                res |-> IF "err" \in DOMAIN r THEN "err" ELSE IF "drop" \in DOMAIN r THEN "drop" ELSE "ok",
                                spec |-> IF IsOk(r) THEN r.s ELSE EmptyFcn,
                                vals |-> vs, enc |-> [i \in DOMAIN vs |-> Enc(cs.t, vs[i])],
                                ok |-> [i \in DOMAIN vs |-> Accepts(r.s, Enc(cs.t, vs[i]))]])>>)
  ELSE
  PrintT(<<"CASE", ToJson([t |-> cs, fam |-> Family, spec |-> InferSpec(cs), code |-> InferCode(cs),
                           vals |-> Vals, enc |-> [i \in DOMAIN Vals |-> Enc(cs, Vals[i])],
                           ok |-> [i \in DOMAIN Vals |-> Accepts(InferSpec(cs), Enc(cs, Vals[i]))]])>>)
====
