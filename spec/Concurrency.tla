---- MODULE Concurrency ----
(***************************************************************************)
(* C13: concurrent Validate calls on one Resolved.                         *)
(*                                                                         *)
(* Two processes each run the frame-event program of one Validate call     *)
(* (ConcData.tla: recorded from the real code, or the default).  Per-call  *)
(* state is private: the dynamic-scope stack lives in the call's `state`   *)
(* value.  The Resolved tables are only read.  A dynamic-anchor lookup      *)
(* returns the outermost stack entry whose resource declares the anchor.   *)
(*                                                                         *)
(* Checked for EVERY interleaving of the two programs:                     *)
(*   SameAsSequential  every lookup returns what it returns when the call  *)
(*                     runs alone                                          *)
(*   StacksBalanced    at the end both stacks are empty                    *)
(* MUT_SharedStack hoists the stack into the shared Resolved: TLC must     *)
(* find an interleaving with a wrong lookup.                               *)
(* Each complete interleaving is printed (CASE) and replayed on the real   *)
(* code with the blocking frame hook as the scheduler gate.                *)
(***************************************************************************)
EXTENDS ConcData, FiniteSets, TLC, Json

CONSTANTS MUT_SharedStack, MaxEvents

VARIABLES scn, pc, stack, shared, looked, sched
cvars == <<scn, pc, stack, shared, looked, sched>>

Procs == {1, 2}
Prog(s, p) == IF p = 1 THEN Scenarios[s].p1 ELSE Scenarios[s].p2

\* outermost entry of st declaring anchor a ("none" if none)
Lookup(s, st, a) ==
  LET hits == {i \in DOMAIN st : a \in Scenarios[s].declares[st[i]]}
  IN IF hits = {} THEN "none" ELSE st[CHOOSE i \in hits : \A j \in hits : i <= j]

\* the lookups of program p run alone
RECURSIVE SeqRun(_, _, _, _, _)
SeqRun(s, prog, k, st, acc) ==
  IF k > Len(prog) THEN acc
  ELSE LET ev == prog[k]
       IN IF ev.e = "in"
            THEN LET st2 == Append(st, ev.n)
                 IN SeqRun(s, prog, k + 1, st2, IF ev.dyn # "" THEN Append(acc, Lookup(s, st2, ev.dyn)) ELSE acc)
            ELSE SeqRun(s, prog, k + 1, SubSeq(st, 1, Len(st) - 1), acc)
Sequential(s, p) == SeqRun(s, Prog(s, p), 1, <<>>, <<>>)

Init ==
  /\ scn \in {s \in DOMAIN Scenarios : Len(Scenarios[s].p1) + Len(Scenarios[s].p2) <= MaxEvents}
  /\ pc = [p \in Procs |-> 1]
  /\ stack = [p \in Procs |-> <<>>]
  /\ shared = <<>>
  /\ looked = [p \in Procs |-> <<>>]
  /\ sched = <<>>

Step(p) ==
  /\ pc[p] <= Len(Prog(scn, p))
  /\ LET ev == Prog(scn, p)[pc[p]]
         cur == IF MUT_SharedStack THEN shared ELSE stack[p]
         nxt == IF ev.e = "in" THEN Append(cur, ev.n) ELSE SubSeq(cur, 1, Len(cur) - 1)
     IN /\ IF MUT_SharedStack THEN shared' = nxt /\ stack' = stack
                              ELSE stack' = [stack EXCEPT ![p] = nxt] /\ shared' = shared
        /\ looked' = IF ev.e = "in" /\ ev.dyn # "" THEN [looked EXCEPT ![p] = Append(@, Lookup(scn, nxt, ev.dyn))] ELSE looked
  /\ pc' = [pc EXCEPT ![p] = @ + 1]
  /\ sched' = Append(sched, p)
  /\ scn' = scn

Next == \E p \in Procs : Step(p)
Spec == Init /\ [][Next]_cvars

Done == \A p \in Procs : pc[p] > Len(Prog(scn, p))

SameAsSequential ==
  \A p \in Procs : \A i \in DOMAIN looked[p] : looked[p][i] = Sequential(scn, p)[i]
StacksBalanced == Done => (\A p \in Procs : stack[p] = <<>>) /\ (MUT_SharedStack \/ shared = <<>>)

Emit == Done => PrintT(<<"CASE", ToJson([scn |-> Scenarios[scn].id, sched |-> sched])>>)
====
