---- MODULE Infer ----
(***************************************************************************)
(* Schema inference (infer.go).                                            *)
(* L0  InferSpec(T): For's documentation and C16's clauses in terms of     *)
(*     encoding/json's own field set EncFields(T): the properties are      *)
(*     exactly the emitted fields, under their JSON names, in field order; *)
(*     required iff neither omitempty nor omitzero; a pointer adds "null"; *)
(*     structs forbid additional properties.                               *)
(* L1  InferCode(T): forType as written: reflect.VisibleFields order and   *)
(*     Go-name shadowing, anonymous fields skipped, last-wins assignment   *)
(*     by JSON name, Required appended per visited field, PropertyOrder    *)
(*     de-duplicated keeping the last occurrence.                          *)
(* The two differ exactly where a JSON name is claimed by two fields       *)
(* (encoding/json's dominant-field rule works on JSON names, VisibleFields *)
(* on Go names) or where an embedded field carries a name tag.             *)
(***************************************************************************)
EXTENDS GoTypes

\* JSONSCHEMAGODEBUG=typeschemasnull=1 (doc.go "Controlling behavior changes"): the behaviour before
\* v0.3.0 - slices are not nullable, pointers to types with a built-in or TypeSchemas schema add no
\* null, big.Int is ["null","string"].
CONSTANT LegacyNull

\* Seeded mutations of forType (MUT_Infer = "none": the code as it is; each other value must be refuted by TLC):
\*   "stickyOptional"   whether a field is optional is refreshed only for tags that carry options: a field without
\*                      options inherits the previous field's answer (and drops out of `required`)
\*   "noNullOmitPtr"    a pointer field tagged omitempty loses "null" (encoding/json omits the nil pointer - but
\*                      not a pointer to a nil slice / nil map / nil pointer)
\*   "byteSliceString"  []uint8 and [N]uint8 are described as strings
CONSTANT MUT_Infer

IntSchema(p) ==
  [type |-> "integer"]
  @@ (IF p \in UnsignedInts THEN [minimum |-> R_0]
      ELSE IF p \in {"int8", "int16", "int32"} THEN [minimum |-> IntMin[p]] ELSE <<>>)
  @@ (IF p \in {"int8", "int16", "int32", "uint8", "uint16", "uint32"} THEN [maximum |-> IntMax[p]] ELSE <<>>)

AddNull(s) ==
  IF "type" \in DOMAIN s THEN [k \in (DOMAIN s \ {"type"}) \cup {"types"} |-> IF k = "types" THEN <<"null", s.type>> ELSE s[k]]
  ELSE IF "types" \in DOMAIN s /\ ~(\E i \in DOMAIN s.types : s.types[i] = "null") THEN [s EXCEPT !.types = <<"null">> \o @]
  ELSE s

Optional(f) == f.opts \cap {"omitempty", "omitzero"} # {}

StdSchema(t) == IF LegacyNull /\ t.w = "bigint" THEN [types |-> <<"null", "string">>] ELSE [type |-> "string"]

RECURSIVE InferSpec(_)
InferSpec(t) ==
  CASE t.k = "prim" -> (IF t.p = "bool" THEN [type |-> "boolean"]
                        ELSE IF t.p = "string" THEN [type |-> "string"]
                        ELSE IF t.p \in Floats THEN [type |-> "number"]
                        ELSE IntSchema(t.p))
    [] t.k = "iface" -> EmptyFcn
    [] t.k = "std" -> StdSchema(t)
    [] t.k = "ptr" -> IF LegacyNull /\ t.e.k = "std" THEN InferSpec(t.e) ELSE AddNull(InferSpec(t.e))
    [] t.k = "slice" -> IF LegacyNull THEN [type |-> "array", items |-> InferSpec(t.e)]
                        ELSE [types |-> <<"null", "array">>, items |-> InferSpec(t.e)]
    [] t.k = "array" -> [type |-> "array", items |-> InferSpec(t.e), minItems |-> t.n, maxItems |-> t.n]
    [] t.k = "map" -> [type |-> "object", additionalProperties |-> InferSpec(t.e)]
    [] t.k = "struct" ->
         LET fs == EncFields(t)
             req == SelectSeq([i \in DOMAIN fs |-> fs[i]], LAMBDA c : ~Optional(c.f))
         IN [type |-> "object", additionalProperties |-> [not |-> EmptyFcn]]
            @@ (IF fs = <<>> THEN <<>> ELSE [propertyOrder |-> [i \in DOMAIN fs |-> fs[i].name]])
            @@ (IF req = <<>> THEN <<>> ELSE [required |-> [i \in DOMAIN req |-> req[i].name]])
            \* (a struct without any field has no "properties" keyword at all)
            @@ (IF t.fields = <<>> THEN <<>> ELSE
                [properties |-> [nm \in {fs[i].name : i \in DOMAIN fs} |->
                                  InferSpec(fs[CHOOSE i \in DOMAIN fs : fs[i].name = nm].f.t)]])

\* ---------------------------------------------------------------- L1
\* reflect.VisibleFields: depth-first, a Go name is visible at its unique shallowest depth
RECURSIVE VWalk(_, _, _)
\* acc: sequence of [go, depth, idx, f, hidden]
VWalk(S, path, acc) ==
  LET step(a, i) ==
        LET f == S.fields[i]
            idx == Append(path, i)
            old == {j \in DOMAIN a : a[j].go = f.go /\ ~a[j].dead}
            o == IF old = {} THEN 0 ELSE CHOOSE j \in old : TRUE
            same == o # 0 /\ Len(a[o].idx) = Len(idx)
            newWins == o # 0 /\ Len(idx) < Len(a[o].idx)
            add == o = 0 \/ newWins
            a1 == IF o # 0 /\ (same \/ newWins) THEN [a EXCEPT ![o].dead = TRUE, ![o].hidden = TRUE] ELSE a
            a2 == IF add THEN Append(a1, [go |-> f.go, idx |-> idx, f |-> f, hidden |-> FALSE, dead |-> FALSE])
                  ELSE IF same THEN Append(a1, [go |-> f.go, idx |-> idx, f |-> f, hidden |-> TRUE, dead |-> FALSE]) ELSE a1
        IN IF IsEmbeddedStruct(f) THEN VWalk(f.t, idx, a2) ELSE a2
      fold[i \in 0..Len(S.fields)] == IF i = 0 THEN acc ELSE step(fold[i - 1], i)
  IN fold[Len(S.fields)]
VisibleFields(S) == SelectSeq(VWalk(S, <<>>, <<>>), LAMBDA e : ~e.hidden)

\* fieldJSONInfo
Omit(f) == ~f.exp \/ f.dash = "dash"

RECURSIVE InferCode(_)
\* the per-struct loop of forType as a fold over VisibleFields
StripNull(s) == IF "types" \in DOMAIN s /\ Len(s.types) = 2 /\ s.types[1] = "null"
                 THEN [k \in (DOMAIN s \ {"types"}) \cup {"type"} |-> IF k = "type" THEN s.types[2] ELSE s[k]] ELSE s
RECURSIVE Loop(_, _, _, _, _, _)
Loop(vf, i, props, order, req, prevOpt) ==
  IF i > Len(vf) THEN [props |-> props, order |-> order, req |-> req]
  ELSE LET f == vf[i].f
       IN IF f.emb # "no" \/ Omit(f) THEN Loop(vf, i + 1, props, order, req, prevOpt)
          ELSE LET nm == JName(f)
                   sch0 == InferCode(f.t)
                   sch == IF MUT_Infer = "noNullOmitPtr" /\ f.t.k = "ptr" /\ "omitempty" \in f.opts THEN StripNull(sch0) ELSE sch0
                   opt == IF MUT_Infer = "stickyOptional" /\ f.opts = {} THEN prevOpt ELSE Optional(f)
               IN Loop(vf, i + 1, (nm :> sch) @@ props, Append(order, nm),
                       IF opt THEN req ELSE Append(req, nm), opt)
\* "Remove PropertyOrder duplicates, keeping the last occurrence"
RECURSIVE DedupLast(_)
DedupLast(q) == IF q = <<>> THEN <<>>
                ELSE LET init == SubSeq(q, 1, Len(q) - 1)
                         last == q[Len(q)]
                     IN DedupLast(SelectSeq(init, LAMBDA x : x # last)) \o <<last>>

InferCode(t) ==
  CASE t.k = "prim" -> (IF t.p = "bool" THEN [type |-> "boolean"]
                        ELSE IF t.p = "string" THEN [type |-> "string"]
                        ELSE IF t.p \in Floats THEN [type |-> "number"]
                        ELSE IntSchema(t.p))
    [] t.k = "iface" -> EmptyFcn
    [] t.k = "std" -> StdSchema(t)
    [] t.k = "ptr" -> LET s == InferCode(t.e)
                      IN IF t.e.k = "std" THEN (IF LegacyNull THEN s ELSE AddNull(s))   \* the TypeSchemas / initialSchemaMap path
                         ELSE IF "type" \in DOMAIN s THEN AddNull(s) ELSE s   \* "if allowNull && s.Type != ''"
    [] t.k \in {"slice", "array"} /\ MUT_Infer = "byteSliceString" /\ t.e.k = "prim" /\ t.e.p = "uint8" ->
                        IF t.k = "slice" THEN [types |-> <<"null", "string">>] ELSE [type |-> "string"]
    [] t.k = "slice" -> IF LegacyNull THEN [type |-> "array", items |-> InferCode(t.e)]
                        ELSE [types |-> <<"null", "array">>, items |-> InferCode(t.e)]
    [] t.k = "array" -> [type |-> "array", items |-> InferCode(t.e), minItems |-> t.n, maxItems |-> t.n]
    [] t.k = "map" -> [type |-> "object", additionalProperties |-> InferCode(t.e)]
    [] t.k = "struct" ->
         LET r == Loop(VisibleFields(t), 1, EmptyFcn, <<>>, <<>>, FALSE)
         IN [type |-> "object", additionalProperties |-> [not |-> EmptyFcn]]
            @@ (IF t.fields = <<>> THEN <<>> ELSE [properties |-> r.props])
            @@ (IF r.order = <<>> THEN <<>> ELSE [propertyOrder |-> DedupLast(r.order)])
            @@ (IF r.req = <<>> THEN <<>> ELSE [required |-> r.req])


\* ---------------------------------------------------------------- options (C16)
\* L0 for ForOptions: IgnoreInvalidTypes (ign) and TypeSchemas (ts: struct name -> schema).
\* Result: [err |-> TRUE] (an error), [drop |-> TRUE] (ignored: no schema), or [s |-> schema].
\*   unsupported kinds: an error, or with ign dropped - a struct field of a dropped type is
\*   omitted, a slice/array/map/pointer of a dropped type is itself dropped
\*   a type that contains itself (k = "rec" marks the back edge): an error, never a hang
\*   a TypeSchemas entry is substituted (cloned) wherever its type occurs; a pointer to it
\*   adds null to whatever type restriction the entry has (none: nothing to add)
\*   an embedded struct with an entry contributes the entry's properties (sorted, not required)
RECURSIVE SortNames(_)
SortNames(S) == IF S = {} THEN <<>>
                ELSE LET m == CHOOSE x \in S : \A y \in S : StrOrd[x] <= StrOrd[y] IN <<m>> \o SortNames(S \ {m})
IErr == [err |-> TRUE]
IDrop == [drop |-> TRUE]
IOk(x) == [s |-> x]
IsOk(r) == "s" \in DOMAIN r
\* where (index paths) an embedded struct with a TypeSchemas entry sits, searching through embedded structs without one
RECURSIVE OvrSites(_, _, _)
OvrSites(S, path, names) ==
  UNION {LET f == S.fields[i] IN
           IF IsEmbeddedStruct(f) /\ f.tag = "" /\ f.dash = "no"
             THEN IF f.t.name \in names THEN {[idx |-> Append(path, i), name |-> f.t.name]} ELSE OvrSites(f.t, Append(path, i), names)
             ELSE {}
         : i \in DOMAIN S.fields}
RECURSIVE InferOpt(_, _, _)
InferOpt(t, ign, ts) ==
  CASE t.k = "bad" -> IF ign THEN IDrop ELSE IErr
    [] t.k = "rec" -> IErr
    \* an entry for a defined (named) type replaces whatever its underlying type would give - an unsupported kind included
    [] t.k = "named" -> IF ("named:" \o t.name) \in DOMAIN ts THEN IOk(ts["named:" \o t.name]) ELSE InferOpt(t.e, ign, ts)
    [] t.k = "ptr" -> LET r == InferOpt(t.e, ign, ts) IN IF IsOk(r) THEN IOk(AddNull(r.s)) ELSE r
    [] t.k = "slice" -> LET r == InferOpt(t.e, ign, ts)
                        IN IF IsOk(r) THEN IOk([types |-> <<"null", "array">>, items |-> r.s]) ELSE r
    [] t.k = "array" -> LET r == InferOpt(t.e, ign, ts)
                        IN IF IsOk(r) THEN IOk([type |-> "array", items |-> r.s, minItems |-> t.n, maxItems |-> t.n]) ELSE r
    [] t.k = "map" -> LET r == InferOpt(t.e, ign, ts)
                      IN IF IsOk(r) THEN IOk([type |-> "object", additionalProperties |-> r.s]) ELSE r
    [] t.k = "struct" ->
         IF t.name \in DOMAIN ts THEN IOk(ts[t.name])
         ELSE LET fs == EncFields(t)
                  \* embedded structs (at any depth of embedding) that have an entry: the entry's
                  \* properties replace the fields promoted through them
                  sites == OvrSites(t, <<>>, DOMAIN ts)
                  under(c) == \E st \in sites : Len(st.idx) <= Len(c.idx) /\ SubSeq(c.idx, 1, Len(st.idx)) = st.idx
                  plain == SelectSeq(fs, LAMBDA c : ~under(c))
                  \* a `jsonschema:"text"` tag becomes the property's description; an empty tag or one that
                  \* starts with WORD= is an error (reserved for future use)
                  BadDesc(f) == "desc" \in DOMAIN f /\ f.desc \in {"", "k=v", "a=b c"}
                  WithDesc(f, r) == IF IsOk(r) /\ "desc" \in DOMAIN f THEN IOk([description |-> f.desc] @@ r.s) ELSE r
                  rs == [i \in DOMAIN plain |->
                           LET r0 == InferOpt(plain[i].f.t, ign, ts)
                           IN IF IsOk(r0) /\ BadDesc(plain[i].f) THEN IErr ELSE WithDesc(plain[i].f, r0)]
                  kept == SelectSeq([i \in DOMAIN plain |-> i], LAMBDA i : IsOk(rs[i]))
                  req == SelectSeq(kept, LAMBDA i : ~Optional(plain[i].f))
              IN IF \E i \in DOMAIN plain : "err" \in DOMAIN rs[i] THEN IErr
                 ELSE LET props == [nm \in {plain[kept[i]].name : i \in DOMAIN kept} |->
                                      rs[CHOOSE i \in DOMAIN plain : IsOk(rs[i]) /\ plain[i].name = nm].s]
                          oprops == UNION {{<<nm, ts[st.name].properties[nm]>> : nm \in DOMAIN ts[st.name].properties} : st \in sites}
                          allp == [nm \in DOMAIN props \cup {p[1] : p \in oprops} |->
                                     IF nm \in DOMAIN props THEN props[nm] ELSE (CHOOSE p \in oprops : p[1] = nm)[2]]
                      IN IOk([type |-> "object", additionalProperties |-> [not |-> EmptyFcn], properties |-> allp]
                             @@ (IF req = <<>> THEN <<>> ELSE [required |-> [i \in DOMAIN req |-> plain[req[i]].name]]))
    \* an entry for a standard-library type replaces its built-in translation
    [] t.k = "std" -> IF ("std:" \o t.w) \in DOMAIN ts THEN IOk(ts["std:" \o t.w]) ELSE IOk(InferSpec(t))
    [] OTHER -> IOk(InferSpec(t))

\* the part of an inferred schema that matters to the evaluator
RECURSIVE Strip(_)
Strip(s) ==
  [k \in DOMAIN s \ {"propertyOrder"} |->
     IF k \in {"items", "additionalProperties", "not"} THEN Strip(s[k])
     ELSE IF k = "properties" THEN [n \in DOMAIN s[k] |-> Strip(s[k][n])]
     ELSE s[k]]
====
