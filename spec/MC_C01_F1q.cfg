SPECIFICATION Spec
CONSTANTS
  Family = "F1"
  K = 2
  DEV_MissingDynAnchorFails = FALSE
INVARIANTS Refines Emit
CHECK_DEADLOCK FALSE
