---- MODULE MC_Lifecycle ----
EXTENDS Lifecycle, Json
Spec == Init /\ [][Next]_lvars
\* one CASE per maximal history
Emit == Len(hist) = MaxHist =>
  PrintT(<<"CASE", ToJson([hist |-> hist, rootA |-> RootOf("A"), rootB |-> RootOf("B"), rem |-> RemDoc,
                           rootURI |-> RootURI, remURI |-> RemURI, insts |-> Insts])>>)
====
