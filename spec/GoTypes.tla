---- MODULE GoTypes ----
(***************************************************************************)
(* Abstract Go types, values, and an L0 model of what encoding/json does   *)
(* with them (C04, C09, C16).  Written from the encoding/json docs.        *)
(*                                                                         *)
(* Types                                                                   *)
(*   [k |-> "prim", p |-> "int8" ...]      [k |-> "iface"]                 *)
(*   [k |-> "ptr" | "slice" | "map", e |-> T]   [k |-> "array", e, n]      *)
(*   [k |-> "std", w |-> "time" | "level" | "bigint" | "bigrat" | "bigfloat"] *)
(*   [k |-> "bad", w |-> "chan" | "func" | "complex" | "mapint"]           *)
(*   [k |-> "rec", name]  a pointer back to the enclosing struct `name`    *)
(*   [k |-> "struct", name, fields |-> << F, ... >>]                       *)
(* Field F = [go, tag, opts, dash, emb, exp, t]                            *)
(*   go   Go field name (for embedded fields: the type's name)             *)
(*   tag  JSON name from the tag ("" = none)   opts subset of {"omitempty","omitzero"} *)
(*   dash "no" | "dash" (tag "-": omitted) | "dashcomma" (tag "-,": named "-") *)
(*   emb  "no" | "value" | "ptr"     exp  exported?                        *)
(* Values (GoVal)                                                          *)
(*   [g |-> "num", n] [g |-> "str", s] [g |-> "bool", b] [g |-> "nil"]     *)
(*   [g |-> "ptr", v] [g |-> "seq", e] [g |-> "map", m] [g |-> "iface", v] *)
(*   [g |-> "struct", f |-> [goName |-> GoVal]] [g |-> "std"]              *)
(***************************************************************************)
EXTENDS Eval

Prim(p) == [k |-> "prim", p |-> p]
Ptr(t) == [k |-> "ptr", e |-> t]
Slice(t) == [k |-> "slice", e |-> t]
Array(t, n) == [k |-> "array", e |-> t, n |-> n]
MapOf(t) == [k |-> "map", e |-> t]
Iface == [k |-> "iface"]
Std(w) == [k |-> "std", w |-> w]
Bad(w) == [k |-> "bad", w |-> w]
Struct(name, fields) == [k |-> "struct", name |-> name, fields |-> fields]
Field(go, tag, opts, t) == [go |-> go, tag |-> tag, opts |-> opts, dash |-> "no", emb |-> "no", exp |-> TRUE, t |-> t]
Embed(go, how, t) == [go |-> go, tag |-> "", opts |-> {}, dash |-> "no", emb |-> how, exp |-> TRUE, t |-> t]

SignedInts == {"int8", "int16", "int32", "int64", "int"}
UnsignedInts == {"uint8", "uint16", "uint32", "uint64", "uint", "uintptr"}
Floats == {"float32", "float64"}
IntMin == [p \in SignedInts \cup UnsignedInts |->
             CASE p = "int8" -> R_m128 [] p = "int16" -> R_i16min [] p = "int32" -> R_i32min
               [] p \in {"int64", "int"} -> R_i64min [] OTHER -> R_0]
IntMax == [p \in SignedInts \cup UnsignedInts |->
             CASE p = "int8" -> R_127 [] p = "int16" -> R_i16max [] p = "int32" -> R_i32max
               [] p \in {"int64", "int"} -> R_i64max [] p = "uint8" -> R_255 [] p = "uint16" -> R_u16max
               [] p = "uint32" -> R_u32max [] OTHER -> R_u64max]

\* ---------------------------------------------------------------- JSON fields of a struct
\* The struct type behind an embedded field (value or pointer embedding)
IsEmbeddedStruct(f) == f.emb # "no" /\ f.t.k = "struct"
\* JSON name of a (non-promoted) field
JName(f) == IF f.dash = "dashcomma" THEN "-" ELSE IF f.tag # "" THEN f.tag ELSE f.go
\* candidates: [name, depth, tagged, idx (index path), f, ptrEmb (reached through a pointer embedding)]
RECURSIVE Cands(_, _, _)
Cands(S, depth, path) ==
  UNION {
    LET f == S.fields[i]
        idx == Append(path, i)
    IN IF f.dash = "dash" THEN {}
       ELSE IF IsEmbeddedStruct(f) /\ f.tag = "" /\ f.dash = "no"
         THEN Cands(f.t, depth + 1, idx)                       \* promoted fields
       ELSE IF ~f.exp THEN {}
       ELSE {[name |-> JName(f), depth |-> depth, tagged |-> (f.tag # "" \/ f.dash = "dashcomma"), idx |-> idx, f |-> f]}
    : i \in DOMAIN S.fields}

\* encoding/json's dominant-field rule
Dominant(S) ==
  LET cs == Cands(S, 0, <<>>)
      names == {c.name : c \in cs}
      best(nm) ==
        LET ns == {c \in cs : c.name = nm}
            md == CHOOSE d \in {c.depth : c \in ns} : \A c \in ns : d <= c.depth
            top == {c \in ns : c.depth = md}
        IN IF Cardinality(top) = 1 THEN top
           ELSE LET tg == {c \in top : c.tagged} IN IF Cardinality(tg) = 1 THEN tg ELSE {}
  IN UNION {best(nm) : nm \in names}

\* lexicographic order on index paths = declaration order
RECURSIVE PathLess(_, _)
PathLess(p, q) ==
  IF p = <<>> THEN q # <<>>
  ELSE IF q = <<>> THEN FALSE
  ELSE IF Head(p) # Head(q) THEN Head(p) < Head(q)
  ELSE PathLess(Tail(p), Tail(q))
RECURSIVE SortCands(_)
SortCands(cs) ==
  IF cs = {} THEN <<>>
  ELSE LET m == CHOOSE c \in cs : \A d \in cs : c = d \/ PathLess(c.idx, d.idx)
       IN <<m>> \o SortCands(cs \ {m})
\* the fields encoding/json emits, in order
EncFields(S) == SortCands(Dominant(S))

\* ---------------------------------------------------------------- values and their encoding
\* "empty" in the sense of omitempty; "zero" in the sense of omitzero
RECURSIVE IsZeroVal(_, _)
IsZeroVal(t, v) ==
  CASE v.g = "nil" -> TRUE
    [] v.g = "num" -> v.n = R_0
    [] v.g = "str" -> v.s = ""
    [] v.g = "bool" -> ~v.b
    [] v.g = "seq" -> t.k = "array" /\ \A i \in DOMAIN v.e : IsZeroVal(t.e, v.e[i])
    [] v.g = "struct" -> \A i \in DOMAIN t.fields : IsZeroVal(t.fields[i].t, v.f[t.fields[i].go])
    [] OTHER -> FALSE
IsEmptyVal(t, v) ==
  CASE v.g = "nil" -> TRUE
    [] v.g = "num" -> v.n = R_0
    [] v.g = "str" -> v.s = ""
    [] v.g = "bool" -> ~v.b
    [] v.g = "seq" -> v.e = <<>>
    [] v.g = "map" -> DOMAIN v.m = {}
    [] OTHER -> FALSE

\* value of the (possibly promoted) field reached by index path idx
RECURSIVE FieldAt(_, _, _)
FieldAt(S, v, idx) ==
  LET f == S.fields[Head(idx)]
      fv == v.f[f.go]
      sv == IF fv.g = "ptr" THEN fv.v ELSE fv
  IN IF Len(idx) = 1 THEN fv ELSE FieldAt(f.t, sv, Tail(idx))

RECURSIVE Enc(_, _)
Enc(t, v) ==
  CASE v.g = "nil" -> Null
    [] v.g = "num" -> Num(v.n)
    [] v.g = "str" -> Str(v.s)
    [] v.g = "bool" -> Bool(v.b)
    [] v.g = "ptr" -> Enc(t.e, v.v)
    [] v.g = "seq" -> Arr([i \in DOMAIN v.e |-> Enc(t.e, v.e[i])])
    [] v.g = "map" -> Obj([k \in DOMAIN v.m |-> Enc(t.e, v.m[k])])
    [] v.g = "iface" -> v.v
    [] v.g = "std" -> IF t.w = "bigint" THEN Num(R_5) ELSE Str("a")
    [] v.g = "struct" ->
         LET fs == EncFields(t)
             keep == {i \in DOMAIN fs :
                        LET fv == FieldAt(t, v, fs[i].idx)
                        IN ~(("omitempty" \in fs[i].f.opts /\ IsEmptyVal(fs[i].f.t, fv))
                             \/ ("omitzero" \in fs[i].f.opts /\ IsZeroVal(fs[i].f.t, fv)))}
         IN Obj([nm \in {fs[i].name : i \in keep} |->
                   LET i == CHOOSE j \in keep : fs[j].name = nm
                   IN Enc(fs[i].f.t, FieldAt(t, v, fs[i].idx))])

\* a few values of every type: zero, nils, extremes, non-empty containers
RECURSIVE Values(_, _)
Values(t, depth) ==
  CASE t.k = "prim" ->
         IF t.p \in SignedInts \cup UnsignedInts
           THEN {[g |-> "num", n |-> r] : r \in {IntMin[t.p], IntMax[t.p], R_0, R_1}}
                \cup (IF t.p \in SignedInts THEN {[g |-> "num", n |-> R_m1]} ELSE {})
         ELSE IF t.p \in Floats THEN {[g |-> "num", n |-> r] : r \in {R_0, R_1h, R_mh, R_2}}
         ELSE IF t.p = "string" THEN {[g |-> "str", s |-> x] : x \in {"", "a"}}
         ELSE {[g |-> "bool", b |-> x] : x \in BOOLEAN}
    [] t.k = "ptr" -> {[g |-> "nil"]} \cup {[g |-> "ptr", v |-> x] : x \in Values(t.e, depth)}
    [] t.k = "slice" -> {[g |-> "nil"], [g |-> "seq", e |-> <<>>]}
                        \cup {[g |-> "seq", e |-> <<x, y>>] : x \in Values(t.e, depth), y \in {CHOOSE z \in Values(t.e, depth) : TRUE}}
    [] t.k = "array" -> {[g |-> "seq", e |-> [i \in 1..t.n |-> x]] : x \in Values(t.e, depth)}
    [] t.k = "map" -> {[g |-> "map", m |-> EmptyFcn]} \cup {[g |-> "map", m |-> [a |-> x]] : x \in Values(t.e, depth)}
    [] t.k = "iface" -> {[g |-> "nil"]} \cup {[g |-> "iface", v |-> x] : x \in {Num(R_1h), Str("a"), Obj([a |-> Arr(<<Null>>)]), Bool(TRUE)}}
    [] t.k = "std" -> {[g |-> "std"]}
    [] t.k = "struct" ->
         \* all fields zero; all fields at their "last" value; each field varied alone
         LET names == {t.fields[i].go : i \in DOMAIN t.fields}
             tyOf(nm) == (CHOOSE i \in DOMAIN t.fields : t.fields[i].go = nm)
             fvals(nm) == LET f == t.fields[tyOf(nm)]
                          IN IF f.emb = "ptr" THEN {x \in Values(Ptr(f.t), depth) : x.g # "nil"}   \* non-nil embedded pointers only
                             ELSE IF f.emb = "value" THEN Values(f.t, depth)
                             ELSE Values(f.t, depth)
             zero(nm) == LET f == t.fields[tyOf(nm)]
                             z == CHOOSE x \in fvals(nm) : f.emb = "ptr" \/ IsZeroVal(f.t, x) \/ \A y \in fvals(nm) : ~IsZeroVal(f.t, y)
                         IN z
             base == [nm \in names |-> zero(nm)]
         IN {[g |-> "struct", f |-> base]}
            \cup UNION {{[g |-> "struct", f |-> [base EXCEPT ![nm] = x]] : x \in fvals(nm)} : nm \in names}
    [] OTHER -> {}
====
