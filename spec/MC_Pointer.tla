---- MODULE MC_Pointer ----
(***************************************************************************)
(* C17: every subschema is addressable by its JSON Pointer; pointers that  *)
(* name no subschema location make Resolve fail.                           *)
(* TLC checks the character-level laws of Pointer.tla for all tokens over  *)
(* the alphabet {a / ~ 0 1 % space -} (length <= K) and all index tokens   *)
(* over {0 1 2 + -}, and emits, for every subschema-bearing keyword of     *)
(* both drafts x key string x index (nested to depth 2), the case "a $ref  *)
(* to the pointer of that location reaches exactly that (marked) schema",  *)
(* plus the invalid-pointer cases, predicted with Resolve.tla's Designates.*)
(***************************************************************************)
EXTENDS PointerCode, Eval, Json, SequencesExt

CONSTANTS Family, K

VARIABLES cs, phase
vars == <<cs, phase>>

Alpha == {"a", "/", "~", "0", "1", "%", " ", "-", "+"}     \* ("+" is an ordinary character of a URI fragment, not a space)
Tokens == UNION {[1..n -> Alpha] : n \in 0..K}
IdxTokens == UNION {[1..n -> {"0", "1", "2", "+", "-"}] : n \in 0..3}

\* ---- character-level laws (checked once, in the initial state) ----
EscapeLaws ==
  \A k \in Tokens : /\ Unesc(Esc(k)) = k
                    /\ UnescCode(Esc(k)) = k
                    /\ \A i \in DOMAIN Esc(k) : Esc(k)[i] # "/"
ParseLaw ==
  \A t1 \in Tokens : \A t2 \in {t \in Tokens : Len(t) <= 1} :
     /\ ParseCode(PtrText(<<t1, t2>>)) = <<t1, t2>>
     /\ ParseCode(PtrText(<<t1>>)) = <<t1>>
IndexLaw == \A t \in IdxTokens : AtoiOK(t) = IndexOK(t)

\* ---- documents ----
Mark == <<R_0, R_1, R_2, R_3, R_4, R_5, R_6>>
T(i) == [const |-> Num(Mark[i])]
\* (a key that is not spelled over the alphabet is one atom: it contains nothing the pointer syntax cares about)
SpecialKeys == {<<"U_e1">>, <<"$ref">>, <<"#">>, <<"?">>, <<"0", "1">>, <<"U_e1", "/", "a">>, <<"~", "U_e1">>}
KeyStrs == {Join(k) : k \in Tokens \cup SpecialKeys}
PropR(rf) == [properties |-> [r |-> [ref |-> rf]]]
Dr(kw) == IF kw \in {"itemsArray", "additionalItems", "depSchemas", "definitions", "chain7"} THEN "d7" ELSE "2020"
Stamp(kw, s) == IF Dr(kw) = "d7" THEN s @@ [schema |-> D7http] ELSE s
Doc1(s) == [docs |-> <<[uri |-> EmptyURI, s |-> s]>>]
Inst == [i \in 1..4 |-> Obj([r |-> Num(Mark[i])])]

\* depth 1: every keyword; the target is marked 1, its siblings 2 and 3
SingleCases == {[u |-> Doc1(Stamp(kw, (kw :> T(1)) @@ PropR(LocalRef(FragPtr(<<SegK(kw)>>))))), kw |-> kw]
                 : kw \in SingleKW}
SeqCases == {[u |-> Doc1(Stamp(kw, (kw :> [j \in 1..3 |-> IF j = i THEN T(1) ELSE T(2)]) @@ PropR(LocalRef(FragPtr(<<SegI(kw, i)>>))))), kw |-> kw]
               : kw \in SeqKW, i \in 1..3}
MapCases == {[u |-> Doc1(Stamp(kw, (kw :> ((Join(t) :> T(1)) @@ ("zz" :> T(2)))) @@ PropR(LocalRef(FragPtr(<<SegN(kw, Join(t))>>))))), kw |-> kw,
               keys |-> (Join(t) :> t)]
               : kw \in (MapKW \ {"patternProperties", "properties"}), t \in Tokens \cup SpecialKeys}
            \cup {[u |-> Doc1([properties |-> (Join(t) :> T(1)) @@ ("zz" :> T(2)) @@ [r |-> [ref |-> LocalRef(FragPtr(<<SegN("properties", Join(t))>>))]]]),
                    kw |-> "properties", keys |-> (Join(t) :> t)] : t \in (Tokens \cup SpecialKeys) \ {<<"r">>}}
\* twins: the map also has a key whose LITERAL text is the escaped spelling of the designated key
\* ("~" next to "~0", "/" next to "~1", "~0" next to "~00"): a segment is unescaped before the lookup, always
TwinCases == {[u |-> Doc1(Stamp(kw, (kw :> ((Join(t) :> T(1)) @@ (Join(Esc(t)) :> T(2)))) @@ PropR(LocalRef(FragPtr(<<SegN(kw, Join(t))>>))))), kw |-> kw, keys |-> (Join(t) :> t)]
                : kw \in {"defs", "depSchemas", "dependentSchemas", "definitions"}, t \in {x \in Tokens : Esc(x) # x}}
             \cup {[u |-> Doc1([properties |-> (Join(t) :> T(1)) @@ (Join(Esc(t)) :> T(2)) @@ [r |-> [ref |-> LocalRef(FragPtr(<<SegN("properties", Join(t))>>))]]]),
                     kw |-> "properties", keys |-> (Join(t) :> t)] : t \in {x \in Tokens : Esc(x) # x}}
\* an anchor (2020-12 $anchor / $dynamicAnchor, draft-07 fragment $id) SPELLED like the pointer of another
\* location: a fragment that begins with "/" is a JSON Pointer, whatever names the document declares
AnchorLikePointer ==
  {[u |-> Doc1([defs |-> [a |-> T(1), b |-> T(2) @@ (kw :> "/$defs/a")]] @@ PropR(LocalRef(FragPtr(<<SegN("defs", "a")>>)))), kw |-> "defs"]
     : kw \in {"anchor", "dynamicAnchor"}}
  \cup {[u |-> Doc1([defs |-> [a |-> T(2) @@ [anchor |-> "/$defs/b"], b |-> T(1)]] @@ PropR(LocalRef(FragPtr(<<SegN("defs", "b")>>)))), kw |-> "defs"],
        [u |-> Doc1(Stamp("definitions", [definitions |-> [a |-> T(1), b |-> T(2) @@ [id |-> IdFrag("/definitions/a")]]]
                                           @@ PropR(LocalRef(FragPtr(<<SegN("definitions", "a")>>))))), kw |-> "definitions"]}
\* the same fragment-only pointer text in two resources of one document: each is evaluated against ITS resource
TwoResources ==
  {[u |-> [docs |-> <<[uri |-> URI("http", "h1", TRUE, <<"root.json">>),
                       s |-> [properties |-> [r |-> [ref |-> LocalRef(FragPtr(<<SegN("properties", "x")>>))], x |-> T(1)],
                              defs |-> [sub |-> [id |-> IdOf(URI("http", "h2", TRUE, <<"sub.json">>)),
                                                 properties |-> [x |-> T(2), r |-> [ref |-> LocalRef(FragPtr(<<SegN("properties", "x")>>))]]]]]]>>],
    kw |-> "properties"],
   [u |-> [docs |-> <<[uri |-> URI("http", "h1", TRUE, <<"root.json">>),
                       s |-> [properties |-> [r |-> [ref |-> LocalRef(FragPtr(<<SegN("defs", "t")>>))]],
                              defs |-> [t |-> T(1), a |-> [id |-> IdOf(RelRef(<<"a.json">>)), defs |-> [t |-> T(2)],
                                                           allOf |-> <<[ref |-> LocalRef(FragPtr(<<SegN("defs", "t")>>))]>>]]]]>>],
    kw |-> "defs"]}
\* a key whose LITERAL text spells the rest of a deeper pointer ("T/properties/x" next to T with a property x):
\* a pointer is cut at EVERY "/", so "#/$defs/T/properties/x" is the property x of T, never the long key
ShadowKey == <<"T", "/", "properties", "/", "x">>
ShadowCases ==
  {[u |-> Doc1(Stamp(kw, (kw :> (("T" :> [properties |-> [x |-> T(1)]]) @@ (Join(ShadowKey) :> T(2))))
                          @@ PropR(LocalRef(FragPtr(<<SegN(kw, "T"), SegN("properties", "x")>>))))), kw |-> kw,
    keys |-> (Join(ShadowKey) :> ShadowKey)]
     : kw \in {"defs", "definitions", "dependentSchemas", "depSchemas"}}
  \cup {[u |-> Doc1([properties |-> ("T" :> [properties |-> [x |-> T(1)]]) @@ (Join(ShadowKey) :> T(2))
                                    @@ [r |-> [ref |-> LocalRef(FragPtr(<<SegN("properties", "T"), SegN("properties", "x")>>))]]]),
          kw |-> "properties", keys |-> (Join(ShadowKey) :> ShadowKey)]}
\* two keys that differ only in a character beyond ASCII whose low byte is the other key's character, both
\* needing an escape: unescaping works on the text, whatever it contains
TruncKeys == ("U_L/x" :> <<"U_L", "/", "x">>) @@ ("A/x" :> <<"A", "/", "x">>)
TruncTwins == {[u |-> Doc1(Stamp(kw, (kw :> ((pr[1] :> T(1)) @@ (pr[2] :> T(2)))) @@ PropR(LocalRef(FragPtr(<<SegN(kw, pr[1])>>))))), kw |-> kw, keys |-> TruncKeys]
                 : kw \in {"defs", "definitions", "dependentSchemas"}, pr \in {<<"U_L/x", "A/x">>, <<"A/x", "U_L/x">>}}
\* a pointer to a subschema that is itself only a reference (a -> c, b -> a, r -> b): every reference designates
\* precisely the location its pointer names, not what that location goes on to refer to (the whole table is compared)
ChainDoc(dk) == (dk :> [a |-> [ref |-> LocalRef(FragPtr(<<SegN(dk, "c")>>))], b |-> [ref |-> LocalRef(FragPtr(<<SegN(dk, "a")>>))], c |-> T(1),
                        d |-> [ref |-> LocalRef(FragPtr(<<SegN(dk, "b")>>))]])
                @@ PropR(LocalRef(FragPtr(<<SegN(dk, "d")>>)))
ChainCases == {[u |-> Doc1(ChainDoc("defs")), kw |-> "chain"], [u |-> Doc1(ChainDoc("definitions") @@ [schema |-> D7http]), kw |-> "chain7"]}
\* depth 2: a keyword under a keyed / indexed parent
NestCases ==
  {[u |-> Doc1([defs |-> (k :> [properties |-> (k2 :> T(1)) @@ ("zz" :> T(2)), allOf |-> <<T(3)>>])]
                @@ PropR(LocalRef(FragPtr(<<SegN("defs", k), SegN("properties", k2)>>)))), kw |-> "nest"]
     : k \in {"a/b", "~1", "%25", " ", ""}, k2 \in {"~", "/", "0", "a~0b", "U_e1"} \cup {Join(t) : t \in {x \in Tokens : Len(x) <= 1}}}
  \cup {[u |-> Doc1([allOf |-> <<T(2), [items |-> T(3), prefixItems |-> <<T(4), T(1)>>]>>]
                @@ PropR(LocalRef(FragPtr(<<SegI("allOf", 2), SegI("prefixItems", 2)>>)))), kw |-> "nest"]}

\* ---- invalid pointers: raw fragment texts against a fixed document ----
\* targets here only constrain numbers, so that the root object instance passes them
TN(i) == [minimum |-> Mark[i], maximum |-> Mark[i]]
BadDoc == [allOf |-> <<TN(1), TN(2)>>, defs |-> [a |-> TN(3)] @@ ("a/" :> TN(6)), items |-> TN(4), required |-> <<"r">>, type |-> "object",
           minimum |-> R_0, title |-> "t"]
BadPtrAtoms == {<<"/", "allOf", "/", "+", "1">>,
               <<"/", "allOf", "/", "-", "0">>,
               <<"/", "allOf", "/", "+", "0">>,
               <<"/", "allOf", "/", "0", "1">>,
               <<"/", "allOf", "/", "0", "0">>,
               <<"/", "allOf", "/", "-">>,
               <<"/", "allOf", "/", "2">>,
               <<"/", "allOf", "/", "-", "1">>,
               <<"/", "allOf", "/", "1", ".", "0">>,
               <<"/", "allOf", "/", "%", "2", "0", "1">>,
               <<"/", "allOf", "/", "1", "%", "2", "0">>,
               <<"/", "allOf", "/", "0", "x", "1">>,
               <<"/", "allOf", "/">>,
               <<"/", "allOf">>,
               <<"/", "$defs">>,
               <<"/", "$defs", "/", "b">>,
               <<"/", "$defs", "/", "A">>,
               <<"/", "properties", "/", "q">>,
               <<"/", "type">>,
               <<"/", "required">>,
               <<"/", "required", "/", "0">>,
               <<"/", "minimum">>,
               <<"/", "title">>,
               <<"/", "nosuch">>,
               <<"/", "items", "/", "0">>,
               <<"/", "allOf", "/", "0", "/", "x">>,
               <<"/", "allOf", "/", "0", "/", "const">>,
               <<"allOf", "/", "0">>,
               <<"/", "AllOf", "/", "0">>,
               <<"/", "Items">>,
               <<"/", "$defs", "/", "a", "/">>,
               <<"/", "/">>,
               <<"/">>,
               <<"/", "properties", "/", "p", "/", "~">>,
               <<"/", "properties", "/", "p", "/", "x">>,          \* (a property is named "p/x": reached as p~1x only)
               <<"/", "defs", "/", "a">>,
               <<"/", "definitions", "/", "a">>,
               <<"/", "allOf", "/", "0", "/">>,
               <<"/", "allOf", "/", "1", "/", "allOf", "/", "0">>,
               <<"/", "not">>,
               <<"/", "if">>,
               <<"/", "then">>,
               <<"/", "else">>,
               <<"/", "contains">>,
               <<"/", "additionalProperties">>,
               <<"/", "propertyNames">>,
               <<"/", "unevaluatedItems">>,
               <<"/", "unevaluatedProperties">>,
               <<"/", "contentSchema">>,
               <<"/", "additionalItems">>,
               <<"/", "allOf", "/", "0", "/", "not">>,
               <<"/", "$defs", "/", "a", "/", "if">>,
               <<"/", "properties", "/", "p", "/", "items">>,
               <<"/", "items", "/", "not">>,
               <<"/", "items", "/", "items">>,
               <<"/", "allOf", "/", "4", "2", "9", "4", "9", "6", "7", "2", "9", "6">>,
               <<"/", "allOf", "/", "4", "2", "9", "4", "9", "6", "7", "2", "9", "7">>,
               <<"/", "allOf", "/", "9", "2", "2", "3", "3", "7", "2", "0", "3", "6", "8", "5", "4", "7", "7", "5", "8", "0", "7">>,
               <<"/", "allOf", "/", "9", "2", "2", "3", "3", "7", "2", "0", "3", "6", "8", "5", "4", "7", "7", "5", "8", "0", "8">>,
               <<"/", "allOf", "/", "9", "2", "2", "3", "3", "7", "2", "0", "3", "6", "8", "5", "4", "7", "7", "5", "8", "0", "9">>,
               <<"/", "allOf", "/", "1", "8", "4", "4", "6", "7", "4", "4", "0", "7", "3", "7", "0", "9", "5", "5", "1", "6", "1", "5">>,
               <<"/", "allOf", "/", "1", "8", "4", "4", "6", "7", "4", "4", "0", "7", "3", "7", "0", "9", "5", "5", "1", "6", "1", "6">>,
               <<"/", "allOf", "/", "1", "8", "4", "4", "6", "7", "4", "4", "0", "7", "3", "7", "0", "9", "5", "5", "1", "6", "1", "7">>,
               <<"/", "allOf", "/", "9", "9", "9", "9", "9", "9", "9", "9", "9", "9", "9", "9", "9", "9", "9", "9", "9", "9", "9", "9", "9", "9", "9", "9", "9", "9">>}
BadPtrs == {Join(a) : a \in BadPtrAtoms}
GoodRawAtoms == {<<<<"/", "allOf", "/", "0">>, 1>>, <<<<"/", "allOf", "/", "1">>, 2>>, <<<<"/", "$defs", "/", "a">>, 3>>, <<<<"/", "items">>, 4>>,
                 <<<<"/", "properties", "/", "p">>, 5>>, <<<<>>, 0>>, <<<<"/", "properties", "/", "p", "~", "1", "x">>, 6>>,
                 <<<<"/", "$defs", "/", "a", "~", "1">>, 6>>}
GoodRaw == {<<Join(g[1]), g[2]>> : g \in GoodRawAtoms}
BadCases == {[u |-> Doc1(BadDoc @@ [properties |-> [p |-> TN(5), r |-> [ref |-> Ref(EmptyURI, [k |-> "raw", s |-> Join(pa)])]] @@ ("p/x" :> TN(6))]), kw |-> "bad", raw |-> Join(pa), atoms |-> pa, want |-> 99] : pa \in BadPtrAtoms}
            \cup {[u |-> Doc1(BadDoc @@ [properties |-> [p |-> TN(5), r |-> [ref |-> Ref(EmptyURI, [k |-> "raw", s |-> Join(g[1])])]] @@ ("p/x" :> TN(6))]), kw |-> "good", raw |-> Join(g[1]), atoms |-> g[1], want |-> g[2]] : g \in GoodRawAtoms}

Cases == CASE Family = "P1" -> SingleCases \cup SeqCases \cup MapCases \cup TwinCases \cup TruncTwins \cup ChainCases \cup ShadowCases \cup AnchorLikePointer \cup TwoResources \cup NestCases
           [] Family = "P2" -> BadCases

Init == cs \in Cases /\ phase = "new"
Next == phase = "new" /\ phase' = "done" /\ cs' = cs
Spec == Init /\ [][Next]_vars

Laws == phase = "new" => TRUE
ASSUME EscapeLaws
ASSUME ParseLaw
ASSUME IndexLaw

\* the $ref designates exactly the location its pointer was built from
Designated ==
  (Family = "P1" /\ phase = "done" /\ cs.kw \notin {"chain", "chain7"}) =>
     LET a == Addr(1, <<SegN("properties", "r")>>)
         t == Designates(cs.u, Dr(cs.kw), a, Node(cs.u, a).ref)
     IN t # NoTarget /\ t.p = Node(cs.u, a).ref.f.p /\ Node(cs.u, t) = T(1)

\* the character sequence of a key string: the cases that iterate over tokens carry it (keys); the few fixed keys are listed
FixedKeyChars(k) ==
  CASE k = "a/b" -> <<"a", "/", "b">> [] k = "a~0b" -> <<"a", "~", "0", "b">> [] k = "%25" -> <<"%", "2", "5">>
    [] k = "~1" -> <<"~", "1">> [] k = "01" -> <<"0", "1">> [] k = "" -> <<>> [] OTHER -> <<k>>
KeyChars(k) == IF "keys" \in DOMAIN cs /\ k \in DOMAIN cs.keys THEN cs.keys[k] ELSE FixedKeyChars(k)
RECURSIVE PathAtoms(_)
PathAtoms(p) ==
  IF p = <<>> THEN <<>>
  ELSE LET seg == Head(p)
       IN <<"/", JsonName(seg.k)>>
          \o (IF "i" \in DOMAIN seg THEN <<"/", Digit(seg.i - 1)>> ELSE IF "n" \in DOMAIN seg THEN <<"/">> \o Esc(KeyChars(seg.n)) ELSE <<>>)
          \o PathAtoms(Tail(p))
\* L1 = L0 for generated locations: the text of the location's pointer walks to exactly that location
PointerRefinesP1 ==
  (Family = "P1" /\ phase = "done") =>
     LET refp == Node(cs.u, Addr(1, <<SegN("properties", "r")>>)).ref.f.p
         r == DerefCode(cs.u.docs[1].s, PathAtoms(refp))
     IN r.st = "ok" /\ r.p = refp
\* L1 = L0 for the raw pointers: the walk of json_pointer.go fails exactly on the pointers that name no subschema
\* location and otherwise ends on the marked subschema
PointerRefines ==
  (Family = "P2" /\ phase = "done") =>
     LET r == DerefCode(cs.u.docs[1].s, cs.atoms)
     IN IF cs.want = 99 THEN r.st = "err"
        ELSE r.st = "ok" /\ (IF cs.want = 0 THEN r.p = <<>> ELSE NodeAtS(cs.u.docs[1].s, r.p) = TN(cs.want))

Verd(U, d) == [i \in DOMAIN Inst |-> IF Ev(U, d, Addr(1, <<>>), Inst[i], <<>>).ok THEN "T" ELSE "F"]
Emit ==
  phase = "done" =>
    PrintT(<<"CASE", ToJson(
      IF Family = "P1" THEN [u |-> cs.u, insts |-> Inst, res |-> "ok", exp |-> Verd(cs.u, Dr(cs.kw)),
                             targets |-> SetToSeq(DesignatedTargets(cs.u, Dr(cs.kw)))]
      ELSE IF cs.want = 99 THEN [u |-> cs.u, insts |-> Inst, res |-> "err", exp |-> <<>>]
      ELSE [u |-> cs.u, insts |-> [i \in 1..6 |-> Obj([r |-> Num(Mark[i])])], res |-> "ok",
            exp |-> [i \in 1..6 |-> IF cs.want = 0 THEN (IF i = 99 THEN "T" ELSE "x") ELSE IF i = cs.want THEN "T" ELSE "F"]])>>)
====
