---- MODULE Resolve ----
(***************************************************************************)
(* L0: which subschema a reference designates.                             *)
(* Written from JSON Schema core 2020-12 section 8.2 / 9 and draft-07      *)
(* section 8, RFC 3986 (URI.tla) and RFC 6901.                             *)
(*                                                                         *)
(* A universe U is [docs |-> <<D1, ..., Dn>>]; D1 is the root document     *)
(* (its uri is the BaseURI option, EmptyURI if none), D2..Dn are what the  *)
(* Loader can supply, keyed by their retrieval uri.  A document is         *)
(* [uri |-> URI, s |-> schema].  A node address is [d |-> i, p |-> path].  *)
(*                                                                         *)
(* A reference is [u |-> URI-reference, f |-> fragment] with fragment      *)
(*   [k |-> "none"] | [k |-> "ptr", p |-> path] | [k |-> "name", a |-> nm] *)
(* An $id is [u |-> URI-reference, f |-> "" | fragment-name].              *)
(***************************************************************************)
EXTENDS SchemaDoc

FragNone    == [k |-> "none"]
FragPtr(p)  == [k |-> "ptr", p |-> p]
FragName(a) == [k |-> "name", a |-> a]
Ref(u, f)   == [u |-> u, f |-> f]
LocalRef(f) == Ref(EmptyURI, f)           \* "#", "#/...", "#name"
IdOf(u)     == [u |-> u, f |-> ""]
IdFrag(a)   == [u |-> EmptyURI, f |-> a]   \* draft-07 "$id": "#a"

NoTarget == [none |-> TRUE]
Addr(d, p) == [d |-> d, p |-> p]

Doc(U, d)   == U.docs[d]
Node(U, a)  == NodeAtS(U.docs[a.d].s, a.p)
DocIds(U)   == DOMAIN U.docs

\* Does this node start a new schema resource?  (draft-07: an $id beside $ref
\* is ignored, and a fragment-only $id is an anchor, not a resource id.)
IsResRoot(dr, n) ==
  /\ "id" \in DOMAIN n
  /\ n.id.f = ""
  /\ ~(dr = "d7" /\ "ref" \in DOMAIN n)

\* Base URI in force at path p of document D (section 8.2.1: $id resolved
\* against the base of the enclosing resource; the root's parent base is the
\* retrieval URI).
RECURSIVE BaseAt(_, _, _)
BaseAt(dr, D, p) ==
  LET n == NodeAtS(D.s, p)
      parent == IF p = <<>> THEN D.uri ELSE BaseAt(dr, D, ButLast(p))
  IN IF IsResRoot(dr, n) THEN ResolveURI(parent, n.id.u) ELSE parent

\* Path of the root of the resource that contains path p.
RECURSIVE ResRootPath(_, _, _)
ResRootPath(dr, D, p) ==
  IF p = <<>> THEN <<>>
  ELSE IF IsResRoot(dr, NodeAtS(D.s, p)) THEN p
  ELSE ResRootPath(dr, D, ButLast(p))

ResAddr(U, dr, a) == Addr(a.d, ResRootPath(dr, Doc(U, a.d), a.p))

\* Paths of all resource roots of a document.
ResRoots(dr, D) == {q \in AllPaths(D.s) : q = <<>> \/ IsResRoot(dr, NodeAtS(D.s, q))}

\* Nodes belonging to the resource rooted at q (not to a nested resource).
ResNodes(dr, D, q) == {p \in AllPaths(D.s) : ResRootPath(dr, D, p) = q}

\* Names a node declares as plain-name fragments.
AnchorsOf(dr, n) ==
  IF dr = "d7"
    THEN IF "id" \in DOMAIN n /\ n.id.f # "" /\ ~("ref" \in DOMAIN n) THEN {n.id.f} ELSE {}
    ELSE (IF "anchor" \in DOMAIN n THEN {n.anchor} ELSE {})
         \cup (IF "dynamicAnchor" \in DOMAIN n THEN {n.dynamicAnchor} ELSE {})
DynAnchorsOf(dr, n) ==
  IF dr # "d7" /\ "dynamicAnchor" \in DOMAIN n THEN {n.dynamicAnchor} ELSE {}

\* Find the resource with absolute URI u, seen from document d:
\*  1. a resource embedded in the referring document (its root also answers
\*     to the retrieval URI);  2. a document the Loader supplies for u.
LocalRes(U, dr, d, u) ==
  LET D == Doc(U, d)
  IN {q \in ResRoots(dr, D) : BaseAt(dr, D, q) = u \/ (q = <<>> /\ D.uri = u)}

\* other documents: what the Loader serves under u, or a document whose
\* canonical URI (its root $id) is u.  (A schema resource is identified by its
\* canonical URI as well as by the URI it was retrieved from; universes are
\* built so that a canonical alias is only referenced from documents that are
\* reached through the aliased document, i.e. after it is known.)
RemoteDocs(U, dr, d, u) ==
  {e \in DocIds(U) : e # d /\ (U.docs[e].uri = u \/ BaseAt(dr, U.docs[e], <<>>) = u)}

\* 3. a resource EMBEDDED in the root document, referred to from a Loader document by its URI: the root document is
\*    known from the start, and a URI identifies the resource wherever the reference stands.  (The package does not
\*    look there: it asks the Loader - known finding KF-crossdoc-C03, see HasCrossEmb below.)
RootEmbedded(U, dr, d, u) ==
  IF d = 1 THEN {} ELSE {q \in ResRoots(dr, Doc(U, 1)) : q # <<>> /\ BaseAt(dr, Doc(U, 1), q) = u}

FindResource(U, dr, d, u) ==
  LET loc == LocalRes(U, dr, d, u)
      rem == RemoteDocs(U, dr, d, u)
      emb == RootEmbedded(U, dr, d, u)
  IN IF loc # {} THEN Addr(d, CHOOSE q \in loc : TRUE)
     ELSE IF rem # {} THEN Addr(CHOOSE e \in rem : TRUE, <<>>)
     ELSE IF emb # {} THEN Addr(1, CHOOSE q \in emb : TRUE)
     ELSE NoTarget


\* ---- JSON Pointer fragments given as raw reference tokens (RFC 6901), used when a
\* reference comes from a real document rather than from a generated universe.
\* A token is [raw |-> text, id |-> string id of the text, pid |-> pattern id of the
\* text ("" if none), n |-> its value as an array index, -1 if it is not a canonical one].
JsonKW == [raw \in {"$defs", "definitions", "properties", "patternProperties", "dependentSchemas", "dependencies",
                    "prefixItems", "allOf", "anyOf", "oneOf", "items", "additionalItems", "contains", "unevaluatedItems",
                    "additionalProperties", "propertyNames", "unevaluatedProperties", "not", "if", "then", "else",
                    "contentSchema"} |->
             CASE raw = "$defs" -> "defs" [] raw = "dependencies" -> "depSchemas" [] OTHER -> raw]
RECURSIVE DerefToks(_, _)
DerefToks(s, toks) ==
  IF toks = <<>> THEN [ok |-> TRUE, p |-> <<>>]
  ELSE IF "bool" \in DOMAIN s \/ Head(toks).raw \notin DOMAIN JsonKW THEN [ok |-> FALSE, p |-> <<>>]
  ELSE LET f0 == JsonKW[Head(toks).raw]
           f == IF f0 = "items" /\ "itemsArray" \in DOMAIN s THEN "itemsArray" ELSE f0
           rest == Tail(toks)
           step(seg, more) == LET r == DerefToks(Sub(s, seg), more) IN [ok |-> r.ok, p |-> <<seg>> \o r.p]
       IN IF f \notin DOMAIN s THEN [ok |-> FALSE, p |-> <<>>]
          ELSE IF f \in SingleKW THEN step(SegK(f), rest)
          ELSE IF rest = <<>> THEN [ok |-> FALSE, p |-> <<>>]
          ELSE IF f \in SeqKW THEN
                 (IF Head(rest).n >= 0 /\ (Head(rest).n + 1) \in DOMAIN s[f] THEN step(SegI(f, Head(rest).n + 1), Tail(rest))
                  ELSE [ok |-> FALSE, p |-> <<>>])
          ELSE LET key == IF f = "patternProperties" THEN Head(rest).pid ELSE Head(rest).id
               IN IF key \in DOMAIN s[f] THEN step(SegN(f, key), Tail(rest)) ELSE [ok |-> FALSE, p |-> <<>>]

\* The absolute URI (without fragment) a reference at address a points to.
RefURI(U, dr, a, ref) == ResolveURI(BaseAt(dr, Doc(U, a.d), a.p), ref.u)

\* Designates: the subschema identified by ref as it occurs at address a.
Designates(U, dr, a, ref) ==
  LET u == RefURI(U, dr, a, ref)
      r == FindResource(U, dr, a.d, u)
  IN IF r = NoTarget THEN NoTarget
     ELSE LET D == Doc(U, r.d)
          IN CASE ref.f.k = "none" -> r
               [] ref.f.k = "ptr"  ->
                    IF HasPath(NodeAtS(D.s, r.p), ref.f.p) THEN Addr(r.d, r.p \o ref.f.p) ELSE NoTarget
               [] ref.f.k = "toks" ->
                    LET r0 == DerefToks(NodeAtS(D.s, r.p), ref.f.toks)
                    IN IF r0.ok THEN Addr(r.d, r.p \o r0.p) ELSE NoTarget
               [] ref.f.k = "name" ->
                    LET c == {p \in ResNodes(dr, D, r.p) : ref.f.a \in AnchorsOf(dr, NodeAtS(D.s, p))}
                    IN IF Cardinality(c) = 1 THEN Addr(r.d, CHOOSE p \in c : TRUE) ELSE NoTarget

\* All references (static and dynamic) occurring in document d.
RefsOf(U, d) ==
  LET S == U.docs[d].s
  IN {<<p, NodeAtS(S, p).ref>> : p \in {q \in AllPaths(S) : "ref" \in DOMAIN NodeAtS(S, q)}}
     \cup {<<p, NodeAtS(S, p).dynamicRef>> : p \in {q \in AllPaths(S) : "dynamicRef" \in DOMAIN NodeAtS(S, q)}}

\* Documents needed to resolve everything reachable from the root.
RECURSIVE Closure(_, _, _)
Closure(U, dr, ds) ==
  LET step == ds \cup UNION {{Designates(U, dr, Addr(d, pr[1]), pr[2]).d : pr \in {x \in RefsOf(U, d) : Designates(U, dr, Addr(d, x[1]), x[2]) # NoTarget}} : d \in ds}
  IN IF step = ds THEN ds ELSE Closure(U, dr, step)

NeededDocs(U, dr) == Closure(U, dr, {1})

\* The resolver's final table, as L0 sees it: every reference of every needed document with the subschema it
\* designates, and whether a $dynamicRef is one that is re-bound at evaluation time (its fragment is a name that
\* the designated subschema declares as $dynamicAnchor).  The replay compares it, entry by entry, with the real
\* Resolved (hook VerifRefTarget).
AllTargets(U, dr) ==
  UNION {LET S == U.docs[d].s
             withRef == {q \in AllPaths(S) : ~("bool" \in DOMAIN NodeAtS(S, q)) /\ "ref" \in DOMAIN NodeAtS(S, q)}
             withDyn == IF dr = "d7" THEN {} ELSE {q \in AllPaths(S) : ~("bool" \in DOMAIN NodeAtS(S, q)) /\ "dynamicRef" \in DOMAIN NodeAtS(S, q)}
         IN {[d |-> d, p |-> p, kind |-> "ref", t |-> Designates(U, dr, Addr(d, p), NodeAtS(S, p).ref), dyn |-> FALSE] : p \in withRef}
            \cup {LET r == NodeAtS(S, p).dynamicRef
                      t0 == Designates(U, dr, Addr(d, p), r)
                  IN [d |-> d, p |-> p, kind |-> "dyn", t |-> t0,
                      dyn |-> (t0 # NoTarget /\ r.f.k = "name" /\ r.f.a \in DynAnchorsOf(dr, NodeAtS(U.docs[t0.d].s, t0.p)))] : p \in withDyn}
         : d \in NeededDocs(U, dr)}
DesignatedTargets(U, dr) == {e \in AllTargets(U, dr) : e.t # NoTarget}

\* Resolve must succeed iff every reference in every needed document
\* designates a subschema (and anchors are unique within each resource).
DupAnchors(U, dr, d) ==
  LET D == Doc(U, d)
  IN \E q \in ResRoots(dr, D) : \E p1, p2 \in ResNodes(dr, D, q) :
        /\ p1 # p2
        /\ AnchorsOf(dr, NodeAtS(D.s, p1)) \cap AnchorsOf(dr, NodeAtS(D.s, p2)) # {}

\* ---- the domain of the property ----
\* Every $id resolves (RFC 3986 defined, result absolute unless the whole
\* document has no absolute base and uses no $id), every reference is
\* resolvable against its base, no two resources of a document share a URI.
RECURSIVE ParentBase(_, _, _)
ParentBase(dr, D, p) == IF p = <<>> THEN D.uri ELSE BaseAt(dr, D, ButLast(p))
IdsOK(dr, D) ==
  \A q \in AllPaths(D.s) :
     IsResRoot(dr, NodeAtS(D.s, q)) =>
        /\ Resolvable(ParentBase(dr, D, q), NodeAtS(D.s, q).id.u)
        /\ IsAbsolute(BaseAt(dr, D, q))
NoDupRes(dr, D) ==
  \A q1, q2 \in ResRoots(dr, D) : q1 # q2 => BaseAt(dr, D, q1) # BaseAt(dr, D, q2)
RefsResolvable(U, dr, d) ==
  \A pr \in RefsOf(U, d) : Resolvable(BaseAt(dr, Doc(U, d), pr[1]), pr[2].u)
DomainOK(U, dr) ==
  \A d \in DocIds(U) : IdsOK(dr, Doc(U, d)) /\ NoDupRes(dr, Doc(U, d)) /\ RefsResolvable(U, dr, d) /\ ~DupAnchors(U, dr, d)

\* the universe contains a reference (in a needed Loader document) that only clause 3 resolves
HasCrossEmb(U, dr) ==
  \E d \in NeededDocs(U, dr) \ {1} : \E pr \in RefsOf(U, d) :
     LET u == RefURI(U, dr, Addr(d, pr[1]), pr[2])
     IN LocalRes(U, dr, d, u) = {} /\ RemoteDocs(U, dr, d, u) = {} /\ RootEmbedded(U, dr, d, u) # {}

ResolveOK(U, dr) ==
  \A d \in NeededDocs(U, dr) :
     /\ ~DupAnchors(U, dr, d)
     /\ \A pr \in RefsOf(U, d) : Designates(U, dr, Addr(d, pr[1]), pr[2]) # NoTarget
====
