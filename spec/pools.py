#!/usr/bin/env python3
"""Single source of truth for the abstract JSON domain.

Emits spec/Pools.tla (constants for TLC) and harness/pools.json (concretisation
tables for the Go harness).  Numbers are *ranks* in a totally ordered pool; the
spec only ever uses rank order, rank equality and the tables below.  Strings are
ids; ASCII strings are their own id.
"""
import json, re, sys, os
from fractions import Fraction as F

HERE = os.path.dirname(os.path.abspath(__file__))

# ---------------------------------------------------------------- numbers
def f64_exact(q):
    try:
        return F(float(q)) == q
    except OverflowError:
        return False

vals = [
    -2**63, -2**53, -2**31 - 1, -2**31, -2**15 - 1, -2**15, -129, -128,
    -2, F(-3, 2), -1, F(-1, 2), 0, F(1, 4), F(1, 2), 1, F(3, 2), 2, F(5, 2), 3, 4, 5, 6,
    127, 128, 255, 256, 2**15 - 1, 2**15, 2**16 - 1, 2**16,
    2**31 - 1, 2**31, 2**32 - 1, 2**32, 2**53 - 1, 2**53, 2**53 + 1,
    2**63 - 1, 2**63, 2**64 - 1, 2**64,
    # the edge of float32's exact integers, and a double next to 1/2 that float32 rounds to 1/2
    2**24, 2**24 + 1, F(1, 2) + F(1, 2**30),
    # a single whose exact value has more digits than its shortest round-trip decimal ("1.0000001")
    1 + F(1, 2**23),
    # one unit in the last place away from a multiple (quotients exact, below 2^53)
    1 + F(1, 2**52), 2**51 + F(1, 2), 4 + F(1, 2**50),
]
# two doubles that differ in the last bit: 0.1+0.2 and 0.3
vals += [F(0.1 + 0.2), F(0.3)]
vals = sorted(set(F(v) for v in vals))

def dec_exact(q):
    """exact decimal expansion of a dyadic rational (for json.Number)."""
    if q.denominator == 1:
        return str(q.numerator)
    # denominator is a power of two: multiply out
    d = q.denominator
    k = d.bit_length() - 1
    assert d == 1 << k
    n = q.numerator * 5**k
    s = str(abs(n)).rjust(k + 1, "0")
    return ("-" if n < 0 else "") + s[:-k] + "." + s[-k:].rstrip("0")

def shortest(q):
    if q.denominator == 1:
        return str(q.numerator)
    return repr(float(q))

nums = []
for r, q in enumerate(vals):
    nums.append({
        "rank": r, "num": str(q.numerator), "den": str(q.denominator),
        "text": shortest(q) if f64_exact(q) else dec_exact(q),
        "exact": dec_exact(q),
        "isInt": q.denominator == 1,
        "f64": f64_exact(q),
        # the domain of multipleOf: dyadic, exactly a float64, quotients by the operands below 2^53
        "small": f64_exact(q) and abs(q) <= 2**50 + 2**49 * 3,
    })
    if f64_exact(q):
        assert F(float(nums[-1]["text"])) == q, q
    assert F(nums[-1]["exact"]) == q

rank_of = {q: r for r, q in enumerate(vals)}
# multipleOf operands; instances restricted to "small" so float arithmetic is exact
mult_ops = [F(1, 4), F(1, 2), 1, F(3, 2), 2, 3]
small = [q for q in vals if f64_exact(q) and abs(q) <= 2**50 + 2**49 * 3]
div = {}
for m in mult_ops:
    for q in small:
        exact = (q / m).denominator == 1
        # the documented float arithmetic must agree on this domain
        import math
        fl = math.modf(float(q) / float(m))[0] == 0
        assert exact == fl, (q, m)
        div[(rank_of[q], rank_of[F(m)])] = exact

# integer representability per Go numeric kind (exact)
def canrep(q):
    reps = []
    if q.denominator == 1:
        n = q.numerator
        for bits in (8, 16, 32, 64):
            if -2**(bits - 1) <= n < 2**(bits - 1):
                reps.append("int%d" % bits)
            if 0 <= n < 2**bits:
                reps.append("uint%d" % bits)
        if -2**63 <= n < 2**63:
            reps.append("int")
        if 0 <= n < 2**64:
            reps += ["uint", "uintptr"]
    if f64_exact(q):
        reps.append("float64")
        import struct
        try:
            f32 = struct.unpack("f", struct.pack("f", float(q)))[0]
            if F(f32) == q:
                reps.append("float32")
        except OverflowError:
            pass
    reps.append("jsonNumber")
    reps.append("jsonNumberE")   # the same value spelled with an exponent: "<exact>e0"
    if q == 0:
        reps.append("negzero")   # float64 -0.0: another representation of the number 0
    return reps

for n, q in zip(nums, vals):
    n["reps"] = canrep(q)

# ---------------------------------------------------------------- strings
strings = {
    "": "", "a": "a", "b": "b", "c": "c", "ab": "ab", "ba": "ba", "abc": "abc",
    "aXc": "aXc", "A": "A",
    "U_e1": "é",            # e-acute composed: 1 code point, 2 bytes
    "U_e2": "é",           # decomposed: 2 code points, 3 bytes
    "U_g1": "\U0001F600",        # 1 code point, 4 bytes
    "U_ae": "aé",
    # pointer-hostile keys
    "/": "/", "~": "~", "~0": "~0", "~1": "~1", "~01": "~01", "%": "%", "%25": "%25",
    " ": " ", "0": "0", "01": "01", "1": "1", "-": "-", "a/b": "a/b", "a~b": "a~b",
    "$ref": "$ref", "#": "#", "?": "?", "B": "B", "aa": "aa", "10": "10", "9": "9", "z": "z",
    # names whose byte order differs from the order of their JSON encodings ('"' = 0x22 ends an encoded
    # key; '<', '&', '"', '\\' are escaped by encoding/json)
    "a!": "a!", "a b": "a b", "a<b": "a<b", "aZ": "aZ", "a_q": "a\"", "a_bs": "a\\", "a&": "a&",
    # characters JSON writes as \u00XX (other quoting conventions write \x01, \a, \v, \x7f, \U000E0001)
    # a key that needs a pointer escape AND holds characters beyond ASCII (Ł = U+0141: its low byte is 'A')
    "U_e1/a": "\u00e9/a", "~U_e1": "~\u00e9", "U_L/x": "\u0141/x", "A/x": "A/x",
    "C_01": "a\u0001b", "C_07": "\u0007", "C_0b": "\u000b", "C_7f": "\u007f", "U_tag": "\U000E0001",
}
patterns = {
    "^a": "^a", "b$": "b$", "a.c": "a.c", "^[ab]+$": "^[ab]+$", "b": "b",
    "^$": "^$", "U_e1": "é", "^.$": "^.$", "^..$": "^..$", "^": "^",
}
match = {}
for pid, p in patterns.items():
    rx = re.compile(p)
    match[pid] = {sid: bool(rx.search(s)) for sid, s in strings.items()}
cplen = {sid: len(s) for sid, s in strings.items()}

# ---------------------------------------------------------------- emit
def tla_str(s):
    return '"' + s.replace("\\", "\\\\").replace('"', '\\"') + '"'

def tla_bool(b):
    return "TRUE" if b else "FALSE"

def fun(pairs):
    """explicit function from pairs"""
    if not pairs:
        return "<<>>"
    return "(" + " @@ ".join("%s :> %s" % (k, v) for k, v in pairs) + ")"

N = len(nums)
out = []
out.append("---- MODULE Pools ----")
out.append("\\* GENERATED by pools.py -- do not edit.")
out.append("EXTENDS Naturals, Sequences, TLC")
out.append("NumRanks == 0..%d" % (N - 1))
out.append("NumIsInt == " + fun([(str(n["rank"]), tla_bool(n["isInt"])) for n in nums]))
out.append("NumF64 == " + fun([(str(n["rank"]), tla_bool(n["f64"])) for n in nums]))
out.append("NumSmall == {" + ", ".join(str(n["rank"]) for n in nums if n["small"]) + "}")
out.append("MultOps == {" + ", ".join(str(rank_of[F(m)]) for m in mult_ops) + "}")
out.append("\\* NumDiv[m][n]: n is an exact multiple of m (m in MultOps, n in NumSmall)")
out.append("NumDiv == " + fun([
    (str(rank_of[F(m)]), fun([(str(rank_of[q]), tla_bool(div[(rank_of[q], rank_of[F(m)])])) for q in small]))
    for m in mult_ops]))
for name, q in [("R_m129", -129), ("R_m128", -128), ("R_m2", -2), ("R_m1h", F(-3, 2)), ("R_m1", -1), ("R_mh", F(-1, 2)),
                ("R_0", 0), ("R_q", F(1, 4)), ("R_h", F(1, 2)), ("R_1", 1), ("R_1h", F(3, 2)), ("R_2", 2),
                ("R_2h", F(5, 2)), ("R_3", 3), ("R_4", 4), ("R_5", 5), ("R_6", 6), ("R_127", 127), ("R_128", 128),
                ("R_255", 255), ("R_256", 256), ("R_i16max", 2**15 - 1), ("R_i16max1", 2**15),
                ("R_u16max", 2**16 - 1), ("R_u16max1", 2**16), ("R_i16min", -2**15), ("R_i16min1", -2**15 - 1),
                ("R_i32max", 2**31 - 1), ("R_i32max1", 2**31), ("R_i32min", -2**31), ("R_i32min1", -2**31 - 1),
                ("R_u32max", 2**32 - 1), ("R_u32max1", 2**32), ("R_2p53m1", 2**53 - 1), ("R_2p53", 2**53),
                ("R_2p53p1", 2**53 + 1), ("R_m2p53", -2**53), ("R_i64max", 2**63 - 1), ("R_2p63", 2**63),
                ("R_i64min", -2**63), ("R_u64max", 2**64 - 1), ("R_2p64", 2**64),
                ("R_p1p2", F(0.1 + 0.2)), ("R_p3", F(0.3)),
                ("R_2p24", 2**24), ("R_2p24p1", 2**24 + 1), ("R_hEps", F(1, 2) + F(1, 2**30)),
                ("R_1eps32", 1 + F(1, 2**23)),
                ("R_1ulp", 1 + F(1, 2**52)), ("R_2p51h", 2**51 + F(1, 2)), ("R_4ulp", 4 + F(1, 2**50))]:
    out.append("%s == %d" % (name, rank_of[F(q)]))
out.append("\\* NumReps[n]: Go numeric representations that hold the value exactly")
out.append("NumReps == " + fun([(str(n["rank"]), "{" + ", ".join(tla_str(r) for r in n["reps"]) + "}") for n in nums]))
out.append("\\* NumText[n]: the decimal text a json.Number holds for the value")
out.append("NumText == " + fun([(str(n["rank"]), tla_str(n["exact"])) for n in nums]))
out.append("StrIds == {" + ", ".join(tla_str(s) for s in strings) + "}")
out.append("CpLen == " + fun([(tla_str(s), str(n)) for s, n in cplen.items()]))
order = sorted(strings, key=lambda i: strings[i].encode("utf-8"))
out.append("\\* StrOrd[s]: rank of the string in ascending byte order (what Go's slices.Sort uses)")
out.append("StrOrd == " + fun([(tla_str(s), str(order.index(s))) for s in strings]))
import json as _json
order_enc = sorted(strings, key=lambda i: _json.dumps(strings[i], ensure_ascii=False).replace("<", "\\u003c").replace(">", "\\u003e").replace("&", "\\u0026").encode("utf-8"))
out.append("\\* StrOrdEnc[s]: rank of the string's encoding/json text (quotes, escapes incl. <, >, &) in byte order -")
out.append("\\* what a sort of RENDERED object members would use (only the mutation MUT_Codec = sortEncoded reads it)")
out.append("StrOrdEnc == " + fun([(tla_str(s), str(order_enc.index(s))) for s in strings]))
out.append("PatIds == {" + ", ".join(tla_str(s) for s in patterns) + "}")
out.append("Match == " + fun([(tla_str(p), fun([(tla_str(s), tla_bool(b)) for s, b in m.items()])) for p, m in match.items()]))
out.append("====")
open(os.path.join(HERE, "Pools.tla"), "w").write("\n".join(out) + "\n")

json.dump({
    "numbers": nums,
    "strings": strings,
    "patterns": patterns,
    "match": match,
    "cplen": cplen,
}, open(os.path.join(HERE, "..", "harness", "pools.json"), "w"), indent=1, ensure_ascii=True, sort_keys=True)
print("pools: %d numbers, %d strings, %d patterns" % (N, len(strings), len(patterns)))
