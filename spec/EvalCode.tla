---- MODULE EvalCode ----
(***************************************************************************)
(* L1: state.validate of validate.go, transcribed step by step in the   *)
(* order the code executes, with the code's compressed annotation record   *)
(*   [allItems, endIndex, evIdx, allProps, evProps]                        *)
(* (annotations.go), its dynamic-scope *stack of schemas* searched from    *)
(* index 0 through each entry's base, merge-into-caller only on success,   *)
(* the "falsy additionalProperties" shortcut and the !allItems /           *)
(* !allProperties guards on unevaluated*.                                  *)
(*                                                                         *)
(* The reference targets come from Resolve.tla (that the resolver machine  *)
(* computes them is ResolverCode.tla's obligation).  uniqueItems is the     *)
(* pairwise test here; that the seeded hash buckets implement it is the    *)
(* theorem of HashUnique.tla.                                              *)
(*                                                                         *)
(* Named deviations of the code (DEV_ switches, CONSTANT-free so that one  *)
(* module serves every config: override in the MC module if needed):       *)
(*   DEV_MissingDynAnchorFails - a $dynamicRef whose anchor is declared by *)
(*     no resource of the dynamic scope fails instead of using the static  *)
(*     target.                                                             *)
(***************************************************************************)
EXTENDS Eval

CONSTANT DEV_MissingDynAnchorFails
\*   DEV_FalsyBesideRef - (the code before the fix) the "false additionalProperties" shortcut recognises the false
\*     schema by its "not" member alone, also under draft-07 where {"$ref": X, "not": {}} means X
CONSTANT DEV_FalsyBesideRef

\* Seeded mutations of the evaluator, each of a kind a maintainer could plausibly introduce (every one was
\* produced by an independent agent against the real code, see seeded/INDEX.md).  With MUT_Eval = "none" the
\* module is the code as it is; for every other value TLC must refute `Refines` on some family (selftest):
\*   "anyOfShort"      anyOf stops at the first branch that validates (annotations of later branches lost)
\*   "mergeOnFailure"  a failed subschema still hands its annotations to the caller
\*   "containsNoNote"  contains with minContains 0 and no maxContains is skipped, indexes not noted
\*   "dynSkipSelf"     the dynamic-scope search leaves out the frame of the schema holding the $dynamicRef
\*   "d7RefLate"       draft-07: the early return of $ref comes after the scalar assertions
\*   "emptyMerge"      merge into an "empty" receiver copies the callee, dropping the receiver's allProps
\*   "dynNoBase"       the dynamic-scope search looks at the stacked schemas themselves, not at their resources
CONSTANT MUT_Eval

NoAnns == [allItems |-> FALSE, endIndex |-> 0, evIdx |-> {}, allProps |-> FALSE, evProps |-> {}]
CR(ok, anns) == [ok |-> ok, anns |-> anns]

Max2(a, b) == IF a > b THEN a ELSE b

\* annotations.merge
IsEmptyMut(a) == ~a.allItems /\ a.endIndex = 0 /\ a.evIdx = {} /\ a.evProps = {}      \* (forgets allProps)
Merge(a, b) ==
  IF MUT_Eval = "emptyMerge" /\ IsEmptyMut(a) THEN b ELSE
  [allItems |-> a.allItems \/ b.allItems,
   endIndex |-> Max2(a.endIndex, b.endIndex),
   evIdx    |-> a.evIdx \cup b.evIdx,
   allProps |-> a.allProps \/ b.allProps,
   evProps  |-> a.evProps \cup b.evProps]

\* what the compressed record denotes, for an instance v
DenItems(an, v) == IF v.t # "arr" THEN {} ELSE
                   IF an.allItems THEN 1..Len(v.e) ELSE ((1..an.endIndex) \cup an.evIdx) \cap (1..Len(v.e))
DenProps(an, v) == IF v.t # "obj" THEN {} ELSE
                   IF an.allProps THEN Names(v) ELSE an.evProps \cap Names(v)

\* "valid(s, &anns)" / "st.validate(instance, s, &anns)": returns the callee
\* verdict and the caller's annotations after the call (merged only on success)
Call(r, anns) == IF r.ok \/ MUT_Eval = "mergeOnFailure" THEN Merge(anns, r.anns) ELSE anns

\* the stack search of validate.go lines 227-238
DynLookup(U, dr, stack0, nm) ==
  LET stack == IF MUT_Eval = "dynSkipSelf" THEN SubSeq(stack0, 1, Len(stack0) - 1) ELSE stack0
      hits == {i \in DOMAIN stack : IF MUT_Eval = "dynNoBase" THEN nm \in DynAnchorsOf(dr, Node(U, stack[i]))
                                     ELSE DeclaresDyn(U, dr, ResAddr(U, dr, stack[i]), nm) # {}}
  IN IF hits = {} THEN NoTarget
     ELSE LET o  == CHOOSE i \in hits : \A j \in hits : i <= j
              ra == ResAddr(U, dr, stack[o])
          IN IF MUT_Eval = "dynNoBase" THEN stack[o] ELSE Addr(ra.d, CHOOSE p \in DeclaresDyn(U, dr, ra, nm) : TRUE)

\* Sequential folds over the children of a keyword.  Each returns
\* [ok, anns]; they stop at the first failure exactly where the code returns.
RECURSIVE Cv(_, _, _, _, _)

RECURSIVE FoldAll(_, _, _, _, _, _, _, _)
\* allOf: validate each with &anns, return on first error
FoldAll(U, dr, a, v, st, kw, i, anns) ==
  IF i > Len(Node(U, a)[kw]) THEN CR(TRUE, anns)
  ELSE LET r == Cv(U, dr, Child(a, SegI(kw, i)), v, st)
       IN IF ~r.ok THEN CR(FALSE, anns) ELSE FoldAll(U, dr, a, v, st, kw, i + 1, Merge(anns, r.anns))

RECURSIVE FoldAny(_, _, _, _, _, _, _, _)
\* anyOf / oneOf: visit all; returns [cnt, anns]
FoldAny(U, dr, a, v, st, kw, i, acc) ==
  IF i > Len(Node(U, a)[kw]) \/ (MUT_Eval = "anyOfShort" /\ kw = "anyOf" /\ acc.cnt > 0) THEN acc
  ELSE LET r == Cv(U, dr, Child(a, SegI(kw, i)), v, st)
       IN FoldAny(U, dr, a, v, st, kw, i + 1,
                  [cnt |-> acc.cnt + (IF r.ok THEN 1 ELSE 0), anns |-> Call(r, acc.anns)])

\* dependentSchemas / dependencies: any iteration order gives the same result
\* on success (merge is commutative) and fails iff some applicable entry fails.
DepFold(U, dr, a, v, st, kw, anns) ==
  LET s  == Node(U, a)
      ks == DOMAIN s[kw] \cap Names(v)
      rs == [k \in ks |-> Cv(U, dr, Child(a, SegN(kw, k)), v, st)]
  IN IF \E k \in ks : ~rs[k].ok THEN CR(FALSE, anns)
     ELSE CR(TRUE, [anns EXCEPT !.evProps = @ \cup UNION {rs[k].anns.evProps : k \in ks},
                                !.allProps = @ \/ \E k \in ks : rs[k].anns.allProps,
                                !.evIdx = @ \cup UNION {rs[k].anns.evIdx : k \in ks},
                                !.allItems = @ \/ \E k \in ks : rs[k].anns.allItems,
                                !.endIndex = IF ks = {} THEN @ ELSE
                                   Max2(@, CHOOSE m \in {rs[k].anns.endIndex : k \in ks} :
                                              \A k \in ks : rs[k].anns.endIndex <= m)])

Cv(U, dr, a, v, stack) ==
  LET s  == Node(U, a)
      st == Append(stack, a)                       \* push
      C(seg, w) == Cv(U, dr, Child(a, seg), w, st) \* child call with a nil callerAnns or &anns
      F == CR(FALSE, NoAnns)
      \* (under "mergeOnFailure" a failing frame still reports what it had recorded)
      Fa(x) == CR(FALSE, IF MUT_Eval = "mergeOnFailure" THEN x ELSE NoAnns)
  IN
  \* a boolean schema is {} or {"not": {}} after Unmarshal
  IF Has(s, "bool") THEN (IF s.bool THEN CR(TRUE, NoAnns) ELSE F) ELSE
  \* ---- $ref ----
  LET refT == IF Has(s, "ref") THEN Designates(U, dr, a, s.ref) ELSE NoTarget
      refR == IF Has(s, "ref") /\ refT # NoTarget THEN Cv(U, dr, refT, v, st) ELSE F
  IN
  IF Has(s, "ref") /\ ~refR.ok THEN F ELSE
  IF Has(s, "ref") /\ dr = "d7" /\ MUT_Eval # "d7RefLate" THEN CR(TRUE, NoAnns) ELSE   \* returns before the merge
  LET anns1 == IF Has(s, "ref") THEN refR.anns ELSE NoAnns IN
  \* ---- type, enum, const, numbers, strings ----
  IF ~(TypeOK(s, v) /\ EnumOK(s, v) /\ NumOK(s, v) /\ StrOK(s, v)) THEN F ELSE
  IF Has(s, "ref") /\ dr = "d7" THEN CR(TRUE, NoAnns) ELSE   \* (only reached under MUT d7RefLate)
  \* ---- $dynamicRef ----
  LET dynOn == Has(s, "dynamicRef") /\ dr = "2020"
      dynSt == IF dynOn THEN Designates(U, dr, a, s.dynamicRef) ELSE NoTarget
      isDyn == dynOn /\ dynSt # NoTarget /\ s.dynamicRef.f.k = "name"
               /\ s.dynamicRef.f.a \in DynAnchorsOf(dr, Node(U, dynSt))
      look  == IF isDyn THEN DynLookup(U, dr, st, s.dynamicRef.f.a) ELSE NoTarget
      dynT  == IF ~isDyn THEN dynSt
               ELSE IF look # NoTarget THEN look
               ELSE IF DEV_MissingDynAnchorFails THEN NoTarget ELSE dynSt
      dynR  == IF dynOn /\ dynT # NoTarget THEN Cv(U, dr, dynT, v, st) ELSE F
  IN
  IF dynOn /\ ~dynR.ok THEN F ELSE
  LET anns2 == IF dynOn THEN Merge(anns1, dynR.anns) ELSE anns1 IN
  \* ---- allOf ----
  LET allR == IF Has(s, "allOf") THEN FoldAll(U, dr, a, v, st, "allOf", 1, anns2) ELSE CR(TRUE, anns2) IN
  IF ~allR.ok THEN F ELSE
  \* ---- anyOf ----
  LET anyR == IF Has(s, "anyOf") THEN FoldAny(U, dr, a, v, st, "anyOf", 1, [cnt |-> 0, anns |-> allR.anns])
              ELSE [cnt |-> 1, anns |-> allR.anns] IN
  IF anyR.cnt = 0 THEN F ELSE
  \* ---- oneOf ----
  LET oneR == IF Has(s, "oneOf") THEN FoldAny(U, dr, a, v, st, "oneOf", 1, [cnt |-> 0, anns |-> anyR.anns])
              ELSE [cnt |-> 1, anns |-> anyR.anns] IN
  IF oneR.cnt # 1 THEN F ELSE
  \* ---- not (annotations ignored) ----
  IF Has(s, "not") /\ C(SegK("not"), v).ok THEN F ELSE
  \* ---- if / then / else ----
  LET ifR   == IF Has(s, "if") THEN C(SegK("if"), v) ELSE F
      anns3 == IF Has(s, "if") THEN Call(ifR, oneR.anns) ELSE oneR.anns
      brK   == IF ifR.ok THEN "then" ELSE "else"
      brOn  == Has(s, "if") /\ Has(s, brK)
      brR   == IF brOn THEN C(SegK(brK), v) ELSE F
  IN
  IF brOn /\ ~brR.ok THEN F ELSE
  LET anns4 == IF brOn THEN Merge(anns3, brR.anns) ELSE anns3 IN
  \* ---- arrays ----
  LET n == IF v.t = "arr" THEN Len(v.e) ELSE 0
      isArr == v.t = "arr"
      prefKW == IF dr = "2020" THEN "prefixItems" ELSE "itemsArray"
      hasPref == Has(s, prefKW)
      npre == IF hasPref THEN Min2(Len(s[prefKW]), n) ELSE 0
      prefOK == \A i \in 1..npre : C(SegI(prefKW, i), v.e[i]).ok
      \* draft-07: "else if schema.Items != nil" - a schema-valued items is
      \* only looked at when ItemsArray is nil
      restOn == IF dr = "2020" THEN Has(s, "items")
                ELSE IF hasPref THEN Has(s, "additionalItems") ELSE Has(s, "items")
      restSeg == IF dr = "2020" THEN SegK("items")
                 ELSE IF hasPref THEN SegK("additionalItems") ELSE SegK("items")
      restFrom == IF hasPref THEN Len(s[prefKW]) + 1 ELSE 1
      restOK == restOn => \A i \in restFrom..n : C(restSeg, v.e[i]).ok
      \* noteEndIndex is called in the 2020 branch always and in the
      \* draft-07 branch only under ItemsArray
      anns5 == IF ~isArr THEN anns4
               ELSE [anns4 EXCEPT !.endIndex = Max2(@, npre), !.allItems = @ \/ restOn]
      contIdx == IF isArr /\ Has(s, "contains") THEN {i \in 1..n : C(SegK("contains"), v.e[i]).ok} ELSE {}
      nC == Cardinality(contIdx)
      contOK == (isArr /\ Has(s, "contains")) =>
                  /\ ~(nC = 0 /\ (~Has(s, "minContains") \/ s.minContains > 0))
                  /\ Has(s, "minContains") => nC >= s.minContains
                  /\ Has(s, "maxContains") => nC <= s.maxContains
      skipNote == MUT_Eval = "containsNoNote" /\ Has(s, "minContains") /\ s.minContains = 0 /\ ~Has(s, "maxContains")
      anns6 == IF skipNote THEN anns5 ELSE [anns5 EXCEPT !.evIdx = @ \cup contIdx]
  IN
  IF isArr /\ ~(prefOK /\ restOK /\ contOK /\ ArrCountsOK(s, v)) THEN Fa(anns6) ELSE
  LET unevI == isArr /\ Has(s, "unevaluatedItems") /\ ~anns6.allItems
      unevIOK == unevI => \A i \in (anns6.endIndex + 1)..n :
                             i \notin anns6.evIdx => C(SegK("unevaluatedItems"), v.e[i]).ok
      anns7 == IF unevI THEN [anns6 EXCEPT !.allItems = TRUE] ELSE anns6
  IN
  IF ~unevIOK THEN Fa(anns6) ELSE
  \* ---- objects ----
  IF v.t # "obj" THEN CR(TRUE, anns7) ELSE
  LET nms == Names(v)
      propNm == IF Has(s, "properties") THEN nms \cap DOMAIN s.properties ELSE {}
      propOK == \A k \in propNm : C(SegN("properties", k), v.m[k]).ok
      patPairs == IF Has(s, "patternProperties")
                    THEN {<<pt, k>> \in (DOMAIN s.patternProperties) \X nms : Match[pt][k]} ELSE {}
      patOK == \A pr \in patPairs : C(SegN("patternProperties", pr[1]), v.m[pr[2]]).ok
      ev1 == propNm \cup {pr[2] : pr \in patPairs}
      hasAdd == Has(s, "additionalProperties")
      \* after Unmarshal, false is {"not": {}}: Not != nil and *Not is the zero Schema
      \* (Not != nil && *Not is the zero Schema - whatever else the schema carries; since the fix: unless draft-07 and $ref)
      falsy == hasAdd /\ (s.additionalProperties = FalseS
                          \/ ("not" \in DOMAIN s.additionalProperties
                              /\ (s.additionalProperties["not"] = TrueS \/ DOMAIN s.additionalProperties["not"] = {})
                              /\ (DEV_FalsyBesideRef \/ ~(dr = "d7" /\ "ref" \in DOMAIN s.additionalProperties))))
      addOK == hasAdd => IF falsy THEN nms \ ev1 = {}
                         ELSE \A k \in nms \ ev1 : C(SegK("additionalProperties"), v.m[k]).ok
      ev2 == IF hasAdd /\ ~falsy THEN nms ELSE ev1
  IN
  IF ~(propOK /\ patOK /\ addOK) THEN F ELSE
  LET anns8 == [anns7 EXCEPT !.evProps = @ \cup ev2]
      pnOK == Has(s, "propertyNames") => \A k \in nms : C(SegK("propertyNames"), Str(k)).ok
  IN
  IF ~(pnOK /\ ObjCountsOK(dr, s, v)) THEN Fa(anns8) ELSE
  LET depKW == IF dr = "2020" THEN "dependentSchemas" ELSE "depSchemas"
      depR == IF Has(s, depKW) THEN DepFold(U, dr, a, v, st, depKW, anns8) ELSE CR(TRUE, anns8)
  IN
  IF ~depR.ok THEN Fa(anns8) ELSE
  LET unevP == Has(s, "unevaluatedProperties") /\ ~depR.anns.allProps
      unevPOK == unevP => \A k \in nms : k \notin depR.anns.evProps =>
                             C(SegK("unevaluatedProperties"), v.m[k]).ok
      anns9 == IF unevP THEN [depR.anns EXCEPT !.allProps = TRUE] ELSE depR.anns
  IN
  IF ~unevPOK THEN Fa(depR.anns) ELSE CR(TRUE, anns9)

\* Resolved.Validate: refuse unsupported $schema values, else validate with an empty stack
CvTop(U, v) == IF DrOf(U) = "refused" THEN CR(FALSE, NoAnns) ELSE Cv(U, DrOf(U), Addr(1, <<>>), v, <<>>)
ValidCode(U, v) == CvTop(U, v).ok
====
