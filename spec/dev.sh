#!/bin/bash
# dev helper: ./dev.sh MC_X.tla MC_X.cfg [workers]  -> runs TLC in a scratch dir, prints non-CASE lines
set -e
W=/var/tmp/tlcdev.$$
mkdir -p $W && cp /verif/spec/*.tla /verif/spec/*.cfg $W/ && cd $W
( time timeout ${TO:-600} tlc -workers ${3:-4} -metadir $W/md -config $2 $1 > out.txt 2>&1 ) 2>&1 | grep -E "^(real|user|sys)" || true
grep -v '^<<"CASE"' out.txt | grep -v '^Semantic\|^Parsing\|^Linting\|^Progress' | head -${HEAD:-40}
echo "CASES: $(grep -c '^<<"CASE"' out.txt)"
cp out.txt /var/tmp/last_out.txt
cd / && rm -rf $W
