---- MODULE MC_Total ----
(***************************************************************************)
(* C10: every entry point returns a value or an error - never a panic or a *)
(* hang.  The model enumerates the malformed inputs and predicts, where    *)
(* the documentation fixes it, whether the call must fail.                 *)
(*                                                                         *)
(*  TK  JSON token sequences (length <= K) fed to Unmarshal.  WellFormed   *)
(*      is a recursive-descent recogniser of the JSON grammar over tokens; *)
(*      ill-formed text must be rejected, and nothing may panic.           *)
(*  KV  every keyword with every ill-typed JSON value: Unmarshal or        *)
(*      Resolve must return an error (never accept silently by crashing).  *)
(*  GR  Schema GRAPHS over the exported fields: shared subschema pointers, *)
(*      cycles, nil children.  Resolve must succeed iff the graph is a     *)
(*      tree without nil children (IsTree), and must always return.        *)
(*  BU  malformed URIs / $id with fragment / bad regexps / conflicting     *)
(*      union fields / duplicate PropertyOrder: Resolve (or Marshal) fails.*)
(*  LD  Loader behaviours: error, nil document, wrong document, the root   *)
(*      itself, one object for two URIs, self-referential universes.       *)
(***************************************************************************)
EXTENDS Naturals, Sequences, FiniteSets, TLC, Json

CONSTANTS Family, K

VARIABLES cs, phase
vars == <<cs, phase>>

\* ------------------------------------------------------------ TK
Toks == {"{", "}", "[", "]", ":", ",", "S", "T", "1", "true", "null"}     \* S = "s" (a string), T = "type"
IsStr(t) == t \in {"S", "T"}
IsScalar(t) == t \in {"S", "T", "1", "true", "null"}
\* recogniser: ParseValue(s, i) = position after one JSON value starting at i, or 0
RECURSIVE ParseValue(_, _), ParseMembers(_, _), ParseElems(_, _)
ParseValue(s, i) ==
  IF i > Len(s) THEN 0
  ELSE IF IsScalar(s[i]) THEN i + 1
  ELSE IF s[i] = "{" THEN (IF i + 1 <= Len(s) /\ s[i + 1] = "}" THEN i + 2 ELSE ParseMembers(s, i + 1))
  ELSE IF s[i] = "[" THEN (IF i + 1 <= Len(s) /\ s[i + 1] = "]" THEN i + 2 ELSE ParseElems(s, i + 1))
  ELSE 0
ParseMembers(s, i) ==
  IF i + 1 > Len(s) \/ ~IsStr(s[i]) \/ s[i + 1] # ":" THEN 0
  ELSE LET j == ParseValue(s, i + 2)
       IN IF j = 0 \/ j > Len(s) THEN 0
          ELSE IF s[j] = "}" THEN j + 1
          ELSE IF s[j] = "," THEN ParseMembers(s, j + 1)
          ELSE 0
ParseElems(s, i) ==
  LET j == ParseValue(s, i)
  IN IF j = 0 \/ j > Len(s) THEN 0
     ELSE IF s[j] = "]" THEN j + 1
     ELSE IF s[j] = "," THEN ParseElems(s, j + 1)
     ELSE 0
WellFormed(s) == s # <<>> /\ ParseValue(s, 1) = Len(s) + 1
TKCases(z) == {[toks |-> s, wf |-> WellFormed(s)] : s \in UNION {[1..n -> Toks] : n \in 0..K}}

\* ------------------------------------------------------------ KV
KVKinds == {"null", "true", "1", "2.5", "big", "str", "arr", "objnum", "arrnum", "obj"}
\* keyword classes by the JSON type(s) their value may have
StrK == {"$id", "$schema", "$ref", "$comment", "$anchor", "$dynamicAnchor", "$dynamicRef", "title", "description", "pattern",
         "format", "contentEncoding", "contentMediaType"}
IntK == {"minLength", "maxLength", "minItems", "maxItems", "minContains", "maxContains", "minProperties", "maxProperties"}
NumK == {"multipleOf", "minimum", "maximum", "exclusiveMinimum", "exclusiveMaximum"}
BoolK == {"uniqueItems", "deprecated", "readOnly", "writeOnly"}
SchemaK == {"additionalItems", "contains", "unevaluatedItems", "additionalProperties", "propertyNames", "unevaluatedProperties",
            "not", "if", "then", "else", "contentSchema"}
SchemaSeqK == {"prefixItems", "allOf", "anyOf", "oneOf"}
SchemaMapK == {"$defs", "definitions", "properties", "patternProperties", "dependentSchemas"}
OtherK == {"type", "items", "dependencies", "required", "dependentRequired", "enum", "examples", "$vocabulary"}
\* must Unmarshal reject keyword k with a value of kind v?   ("null" is accepted for every Go field type)
\* arr = ["a"], arrnum = [1], obj = {"a":{}}, objnum = {"a":1}, big = 2147483648
MustReject(k, v) ==
  IF v = "null" THEN FALSE
  ELSE IF k \in StrK THEN v # "str"
  ELSE IF k \in IntK THEN v \notin {"1"}
  ELSE IF k \in NumK THEN v \notin {"1", "2.5", "big"}
  ELSE IF k \in BoolK THEN v # "true"
  ELSE IF k \in SchemaK THEN v \notin {"true", "obj", "objnum"}    \* objnum = {"a":1}: an object, unknown keyword a
  ELSE IF k \in SchemaSeqK THEN v \in {"true", "1", "2.5", "big", "str", "obj", "objnum", "arr", "arrnum"}
  ELSE IF k \in SchemaMapK THEN v \in {"true", "1", "2.5", "big", "str", "arr", "arrnum", "objnum"}
  ELSE IF k = "type" THEN v \notin {"str", "arr"}
  ELSE IF k = "items" THEN v \in {"1", "2.5", "big", "str", "arr", "arrnum"}
  ELSE IF k = "dependencies" THEN v \in {"true", "1", "2.5", "big", "str", "arr", "arrnum", "objnum"}
  ELSE IF k = "required" THEN v \notin {"arr"}
  ELSE IF k = "dependentRequired" THEN v \in {"true", "1", "2.5", "big", "str", "arr", "arrnum", "objnum", "obj"}
  ELSE IF k \in {"enum", "examples"} THEN v \notin {"arr", "arrnum"}
  ELSE IF k = "$vocabulary" THEN v \in {"true", "1", "2.5", "big", "str", "arr", "arrnum", "objnum", "obj"}
  ELSE FALSE
AllK == UNION {StrK, IntK, NumK, BoolK, SchemaK, SchemaSeqK, SchemaMapK, OtherK}
KVCases(z) == {[k |-> k, v |-> v, reject |-> MustReject(k, v)] : k \in AllK, v \in KVKinds}

\* ------------------------------------------------------------ GR
\* graphs over node ids 1..3 (0 = nil child); node 1 is the root.  Each node has
\* up to four child slots: not, items, allOf[1], properties.k
Slots == {"not", "items", "allOf", "prop"}
\* built constructively (lazily): choose <= K occupied child slots, then their targets
Positions == (1..3) \X Slots
Graphs(z) ==
  UNION {{[n \in 1..3 |-> [s \in Slots |-> IF <<n, s>> \in Q THEN f[<<n, s>>] ELSE 0]] : f \in [Q -> 1..3]} :
           Q \in {X \in SUBSET Positions : Cardinality(X) <= K}}
Reach1(g, S) == (S \cup {g[n][s] : n \in S, s \in Slots}) \ {0}
RECURSIVE ReachAll(_, _)
ReachAll(g, S) == IF Reach1(g, S) = S THEN S ELSE ReachAll(g, Reach1(g, S))
\* a tree: every reachable node other than the root has exactly one incoming edge
\* from reachable nodes, and the root has none
IsTree(g) ==
  LET R == ReachAll(g, {1})
      inc(m) == Cardinality({<<n, s>> \in R \X Slots : g[n][s] = m})
  IN inc(1) = 0 /\ \A m \in R \ {1} : inc(m) = 1
\* explicit nil entries: a separate flag puts a nil into the root's allOf / properties
GRCases(z) == {[g |-> g, nilIn |-> w, tree |-> IsTree(g) /\ w = "none"] :
              g \in Graphs(0), w \in {"none", "allOf", "properties", "prefixItems", "defs"}}


\* ------------------------------------------------------------ BU: malformed but well-typed schema values
\* [f: field, v: text, op: which call must fail ("resolve" | "marshal" | "none")]
BUCases(z) ==
  {[f |-> "$id", v |-> t, op |-> "resolve"] : t \in {"%zz", "http://[::1", ":", "a.json#frag", "#frag", "rel.json", "\\"}}
  \* (an EMPTY fragment is tolerated: 2020-12 core 8.2.1 only forbids a non-empty one)
  \cup {[f |-> "$id", v |-> "http://h/x#", op |-> "none"]}
  \cup {[f |-> "$ref", v |-> t, op |-> "resolve"] : t \in {"%zz", "http://[::1", ":", "#/nowhere", "#nowhere", "other.json", "#/%zz", "##", "#/allOf/x"}}
  \cup {[f |-> "$dynamicRef", v |-> t, op |-> "resolve"] : t \in {"%zz", "#nowhere", "#/nowhere", "other.json#a"}}
  \cup {[f |-> "pattern", v |-> t, op |-> "resolve"] : t \in {"(", "a{2,1}", "[", "\\", "(?<n", "a**"}}
  \cup {[f |-> "patternProperties", v |-> t, op |-> "resolve"] : t \in {"(", "[a-"}}
  \cup {[f |-> "conflict", v |-> t, op |-> "resolve"] : t \in {"Type+Types", "Items+ItemsArray", "Defs+Definitions", "DupPropertyOrder", "DepBoth", "Vocabulary"}}
  \cup {[f |-> "conflict", v |-> t, op |-> "marshal"] : t \in {"Type+Types", "Items+ItemsArray", "Defs+Definitions", "DupPropertyOrder", "DepBoth", "ExtraDuplicatesField"}}
  \cup {[f |-> "$anchor", v |-> t, op |-> "none"] : t \in {"", "a b", "/x", "dup"}}
  \cup {[f |-> "$schema", v |-> t, op |-> "validate"] : t \in {"http://json-schema.org/draft-04/schema#", "x", "%zz"}}
  \cup {[f |-> "baseuri", v |-> t, op |-> "resolve"] : t \in {"%zz", "http://h/x#frag", ":"}}
  \cup {[f |-> "baseuri", v |-> t, op |-> "none"] : t \in {"rel/path", "urn:x", "http://h"}}
  \* numeric keywords holding values no JSON document can hold (a Schema VALUE is any Go value of the type)
  \cup {[f |-> kw, v |-> x, op |-> "none"] : kw \in {"minimum", "maximum", "exclusiveMinimum", "exclusiveMaximum", "multipleOf"},
                                          x \in {"+Inf", "-Inf", "NaN", "-0", "5e-324", "1.7976931348623157e308"}}

\* the same malformed node BELOW the root: as an element of every list-valued keyword and as a member of every
\* map-valued one, with further subschemas after it in every walk order (Resolve stops at the error: whatever
\* walks the tree must stop with it).  No prediction beyond "returns" (op none).
BUAts == {"allOf0", "anyOf1", "oneOf0", "prefixItems0", "itemsArray0", "props", "defs", "items", "notAllOf"}
BUNested(z) == {[f |-> c.f, v |-> c.v, op |-> "none", at |-> a] :
                  c \in {x \in BUCases(0) : x.op = "resolve" /\ x.f \notin {"baseuri"}} \cup {[f |-> "default", v |-> "bad", op |-> "resolve"]},
                  a \in BUAts}
                \cup {[f |-> "default", v |-> "bad", op |-> "resolve"]}

\* ------------------------------------------------------------ LD: Loader behaviours
LDCases(z) ==
  {[beh |-> b, res |-> r] : <<b, r>> \in
     {<<"nil-root", "err">>, <<"error", "err">>, <<"nil", "err">>, <<"wrong-doc", "err">>, <<"root-itself", "any">>, <<"same-object-two-uris", "any">>,
      <<"self-loop", "ok">>, <<"mutual", "ok">>, <<"chain-6", "ok">>, <<"chain-then-error", "err">>, <<"doc-with-bad-ref", "err">>,
      <<"doc-nil-child", "err">>, <<"doc-not-tree", "err">>, <<"loader-panics-never", "ok">>, <<"no-loader", "err">>,
      <<"in-place-ref-cycle-ok", "ok">>}}

Cases == CASE Family = "BU" -> BUCases(0) \cup BUNested(0) [] Family = "LD" -> LDCases(0) [] Family = "TK" -> TKCases(0) [] Family = "KV" -> KVCases(0) [] Family = "GR" -> GRCases(0)

Init == cs \in Cases /\ phase = "new"
Next == phase = "new" /\ phase' = "done" /\ cs' = cs
Spec == Init /\ [][Next]_vars
Emit == phase = "done" => PrintT(<<"CASE", ToJson(cs)>>)
====
