#!/bin/bash
# dev: ./ev.sh Family K Dr [workers] [extra invariants]
cat > /verif/spec/_dev.cfg <<EOC
SPECIFICATION Spec
CONSTANTS
  Family = "$1"
  K = $2
  Dr = "$3"
  DEV_MissingDynAnchorFails = FALSE
INVARIANTS ${INV:-Wellformed Refines Emit}
CHECK_DEADLOCK FALSE
EOC
JAVA_TOOL_OPTIONS="-Xmx3g -Xmn128m -XX:ParallelGCThreads=2 -Xss64m" /verif/spec/dev.sh MC_Eval.tla _dev.cfg ${4:-8}
rm -f /verif/spec/_dev.cfg
