---- MODULE MC_Resolve ----
(***************************************************************************)
(* C03 (and the resolver part of C10): every $ref reaches the designated   *)
(* subschema; unresolvable references and Loader faults make Resolve fail; *)
(* each URI is requested from the Loader at most once; cycles terminate.   *)
(*                                                                         *)
(* TLC explores the resolver machine (ResolverCode.tla) on every universe  *)
(* of the family and every fault subset, for every order in which the      *)
(* references of a document may be visited, and checks NoPanic,            *)
(* AtMostOnce, NeverLoadsKnown, NoReentry, refinement of L0 (Resolve.tla:  *)
(* Designates / ResolveOK) at termination, and termination itself.         *)
(* At each final state it prints a CASE line with the L0 prediction:       *)
(* Resolve ok/err, the verdict vector over uniquely marked targets, and    *)
(* the set of Loader calls.                                                *)
(***************************************************************************)
EXTENDS ResolverCode, Eval, Json, SequencesExt

CONSTANTS Family, K

\* ------------------------------------------------------------ helpers
Mark == <<R_0, R_1, R_2, R_3, R_4, R_5, R_6>>
Tgt(i) == [const |-> Num(Mark[i + 1]), anchor |-> "a"]
PDefsT == FragPtr(<<SegN("defs", "t")>>)
Frags == {FragNone, FragName("a"), PDefsT}
H1(path) == URI("http", "h1", TRUE, path)
H2(path) == URI("http", "h2", TRUE, path)
PropR == SegN("properties", "r")

\* ------------------------------------------------------------ R1: embedded resources
\* root { $id?, $defs.t, properties: {e1: {$id, $defs.t, properties: {in: {$id: inner.json, $defs.t}}},
\*                                     e2: {$id, $defs.t}} }
\* exactly one of the four resources carries properties.r = {$ref: R}
\* (a directory-style base - path ending in "/" - resolves relative references INSIDE that directory, RFC 3986 5.2.3)
R1Bases   == {EmptyURI, H1(<<"dir", "root.json">>), H1(<<"dir", "">>)}
R1RootIds == {<<>>, <<IdOf(RelRef(<<"rid.json">>))>>, <<IdOf(H2(<<"x", "rid.json">>))>>, <<IdOf(URN("root"))>>}
R1Ids1    == {IdOf(RelRef(<<"e.json">>)), IdOf(RelRef(<<"sub", "e.json">>)), IdOf(H2(<<"e.json">>)), IdOf(URN("e"))}
R1Ids2    == {IdOf(RelRef(<<"f.json">>)), IdOf(H2(<<"x", "f.json">>))}
R1RefURIs ==
  {EmptyURI, RelRef(<<"e.json">>), RelRef(<<"sub", "e.json">>), RelRef(<<"inner.json">>), RelRef(<<"sub", "inner.json">>),
   RelRef(<<"..", "dir", "e.json">>), RelRef(<<".", "e.json">>), RelRef(<<"..", "e.json">>), RelRef(<<"rid.json">>),
   RelRef(<<"root.json">>), RelRef(<<"f.json">>), AbsPathRef(<<"dir", "e.json">>), AbsPathRef(<<"x", "f.json">>),
   H1(<<"dir", "e.json">>), H1(<<"dir", "root.json">>), H1(<<"dir", "sub", "inner.json">>), H2(<<"e.json">>),
   H2(<<"inner.json">>), H2(<<"x", "rid.json">>), H2(<<"x", "f.json">>), URN("e"), URN("root"), H1(<<"nowhere.json">>)}
Locs == {"root", "e1", "in", "e2"}
WithRef(loc, here, rf) == IF loc = here THEN [properties |-> [r |-> [ref |-> rf]]] ELSE <<>>
MergeProps(a, b) ==      \* union of two optional [properties |-> ...] records
  IF a = <<>> THEN b ELSE IF b = <<>> THEN a ELSE [properties |-> a.properties @@ b.properties]
\* anc: the resources (0 root, 1 e1, 2 e2, 3 inner) whose $defs/t declares the plain-name anchor "a" - an anchor
\* belongs to the resource that declares it: "e.json#a" designates nothing when only the root declares "a"
\* nm: the anchor's name ("a", or one using every character class a plain name may contain: "x-y.z_9")
TgtN(i, anc, nm) == [const |-> Num(Mark[i + 1])] @@ (IF i \in anc THEN [anchor |-> nm] ELSE <<>>)
R1DocN(rid, id1, id2, loc, rf, anc, nm) ==
  LET inner == [id |-> IdOf(RelRef(<<"inner.json">>)), defs |-> [t |-> TgtN(3, anc, nm)]] @@ WithRef(loc, "in", rf)
      e1 == [id |-> id1, defs |-> [t |-> TgtN(1, anc, nm)]] @@ MergeProps([properties |-> [in |-> inner]], WithRef(loc, "e1", rf))
      \* two fixed referrers with the SAME reference text "#/$defs/t" in different resources:
      \* a pointer fragment is evaluated against the resource the non-fragment part selects
      fix == [properties |-> [r0 |-> [ref |-> LocalRef(PDefsT)]]]
      e2 == [id |-> id2, defs |-> [t |-> TgtN(2, anc, nm)]] @@ MergeProps(fix, WithRef(loc, "e2", rf))
  IN (IF rid = <<>> THEN <<>> ELSE [id |-> rid[1]])
     @@ [defs |-> [t |-> TgtN(0, anc, nm)]]
     @@ MergeProps(MergeProps([properties |-> [e1 |-> e1, e2 |-> e2]], fix), WithRef(loc, "root", rf))
R1DocA(rid, id1, id2, loc, rf, anc) == R1DocN(rid, id1, id2, loc, rf, anc, "a")
R1Doc(rid, id1, id2, loc, rf) == R1DocA(rid, id1, id2, loc, rf, 0..3)
\* instance that routes the mark m to the referrer at loc
Route(loc, v) ==
  CASE loc = "root" -> Obj([r |-> v])
    [] loc = "e1"   -> Obj([e1 |-> Obj([r |-> v])])
    [] loc = "in"   -> Obj([e1 |-> Obj([in |-> Obj([r |-> v])])])
    [] loc = "e2"   -> Obj([e2 |-> Obj([r |-> v])])
R1CasesN(fs, ancs, nm) ==
  {[u |-> [docs |-> <<[uri |-> b, s |-> R1DocN(rid, id1, id2, loc, Ref(ru, f), anc, nm)]>>],
    insts |-> [i \in 1..5 |-> Route(loc, IF i = 5 THEN Str("a") ELSE Num(Mark[i]))]
              \o [i \in 1..4 |-> Obj([r0 |-> Num(Mark[i])])] \o [i \in 1..4 |-> Obj([e2 |-> Obj([r0 |-> Num(Mark[i])])])]] :
      b \in R1Bases, rid \in (IF K >= 2 THEN R1RootIds ELSE {<<>>, <<IdOf(RelRef(<<"rid.json">>))>>}),
      id1 \in (IF K >= 2 THEN R1Ids1 ELSE {IdOf(RelRef(<<"e.json">>)), IdOf(H2(<<"e.json">>))}),
      id2 \in (IF K >= 3 THEN R1Ids2 ELSE {IdOf(RelRef(<<"f.json">>))}),
      loc \in Locs, ru \in R1RefURIs, f \in fs, anc \in ancs}
\* NO base URI and no options at all (Resolve(nil)): every embedded resource carries an absolute $id, so the document
\* resolves; a reference that leaves the document then finds no Loader and must make Resolve fail (never a panic)
R1NoBase ==
  {[u |-> [docs |-> <<[uri |-> EmptyURI, s |-> R1DocN(<<>>, IdOf(H2(<<"e.json">>)), IdOf(H2(<<"x", "f.json">>)), loc, Ref(ru, f), 0..3, "a")]>>],
    insts |-> [i \in 1..5 |-> Route(loc, IF i = 5 THEN Str("a") ELSE Num(Mark[i]))]
              \o [i \in 1..4 |-> Obj([r0 |-> Num(Mark[i])])] \o [i \in 1..4 |-> Obj([e2 |-> Obj([r0 |-> Num(Mark[i])])])]] :
      loc \in Locs, ru \in R1RefURIs, f \in {FragNone, FragName("a")}}
R1CasesA(fs, ancs) == R1CasesN(fs, ancs, "a")
R1Cases(z) == R1CasesA(Frags, {0..3}) \cup R1CasesA({FragName("a")}, {{0}, {1, 2, 3}})
              \cup R1CasesN({FragName("x-y.z_9")}, {0..3}, "x-y.z_9") \cup R1NoBase

\* ------------------------------------------------------------ R2: Loader documents
\* chains, diamonds, cycles, canonical-vs-retrieval aliases, faults
RootU == H1(<<"dir", "root.json">>)
RemU  == H1(<<"dir", "rem.json">>)
\* canon: "none" | "abs" ($id http://h3/c.json) | "rel" ($id ../canon/c.json: the text differs from the canonical URI)
CanonBase(canon) == IF canon = "abs" THEN URI("http", "h3", TRUE, <<"c.json">>) ELSE IF canon = "rel" THEN H1(<<"canon", "c.json">>) ELSE RemU
Rem2U(canon) == IF canon = "abs" THEN URI("http", "h3", TRUE, <<"sub", "rem2.json">>)
                ELSE IF canon = "rel" THEN H1(<<"canon", "sub", "rem2.json">>) ELSE H1(<<"dir", "sub", "rem2.json">>)
RefTo(path, f) == Ref(RelRef(path), f)
\* what rem's properties.r refers to
RemInner == {<<>>, <<RefTo(<<"sub", "rem2.json">>, FragName("a"))>>, <<RefTo(<<"sub", "rem2.json">>, FragNone)>>,
             <<LocalRef(FragName("a"))>>}
\* what rem2's properties.r refers to (cycle back to rem / to the root / nothing)
Rem2Kinds == {"none", "remA", "rootT", "remNone", "rootCanon"}
Rem2Inner(canon, kind) ==
  CASE kind = "none"    -> <<>>
    [] kind = "remA"    -> <<RefTo(<<"..", IF canon # "none" THEN "c.json" ELSE "rem.json">>, FragName("a"))>>
    [] kind = "rootCanon" -> <<Ref(H1(<<"dir", "rid.json">>), PDefsT)>>      \* the root by its canonical URI (root $id "rid.json")
    [] kind = "rootT"   -> <<Ref(RootU, PDefsT)>>
    [] kind = "remNone" -> <<RefTo(<<"..", IF canon # "none" THEN "c.json" ELSE "rem.json">>, FragNone)>>
RemDoc(canon, inner) ==
  (IF canon = "abs" THEN [id |-> IdOf(URI("http", "h3", TRUE, <<"c.json">>))]
   ELSE IF canon = "rel" THEN [id |-> IdOf(RelRef(<<"..", "canon", "c.json">>))] ELSE <<>>)
  @@ [defs |-> [t |-> Tgt(4)]] @@ (IF inner = <<>> THEN <<>> ELSE [properties |-> [r |-> [ref |-> inner[1]]]])
Rem2Doc(inner) ==
  [defs |-> [t |-> Tgt(5)]] @@ (IF inner = <<>> THEN <<>> ELSE [properties |-> [r |-> [ref |-> inner[1]]]])
\* the root's references: properties r and (for diamonds) r2; optionally from inside an embedded
\* resource with another base (h1/dir/sub/): there "rem.json" means h1/dir/sub/rem.json -> not served
RootRefs == {<<RefTo(<<"rem.json">>, f)>> : f \in Frags}
            \cup {<<RefTo(<<"sub", "rem2.json">>, FragName("a"))>>}
            \cup {<<RefTo(<<"rem.json">>, f), RefTo(<<"sub", "rem2.json">>, FragName("a"))>> : f \in {FragNone, FragName("a")}}
            \cup {<<RefTo(<<"sub", "rem2.json">>, FragName("a")), RefTo(<<"rem.json">>, FragName("a"))>>}
            \cup {<<Ref(RemU, FragName("a")), RefTo(<<"rem.json">>, PDefsT)>>}
            \cup {<<RefTo(<<"missing.json">>, FragNone)>>, <<RefTo(<<"rem.json">>, FragName("zz"))>>,
                  <<RefTo(<<"rem.json">>, FragPtr(<<SegN("defs", "zz")>>))>>}
R2Root(refs, emb) ==
  LET props == [r |-> [ref |-> refs[1]]] @@ (IF Len(refs) > 1 THEN [r2 |-> [ref |-> refs[2]]] ELSE <<>>)
      rid == [id |-> IdOf(RelRef(<<"rid.json">>))]       \* relative root $id: canonical URI http://h1/dir/rid.json
  IN rid @@ (IF emb THEN [defs |-> [t |-> Tgt(0)], properties |-> [e |-> [id |-> IdOf(RelRef(<<"sub", "e.json">>)), properties |-> props]]]
             ELSE [defs |-> [t |-> Tgt(0)], properties |-> props])
R2Wrap(emb, v) == IF emb THEN Obj([e |-> v]) ELSE v
R2Insts(emb) ==
  LET vs == {Obj([r |-> Num(Mark[i])]) : i \in 1..6}
            \cup {Obj([r |-> Obj([r |-> Num(Mark[i])])]) : i \in 1..6}
            \cup {Obj([r |-> Obj([r |-> Obj([r |-> Num(Mark[i])])])]) : i \in {1, 5, 6}}
            \cup {Obj([r2 |-> Num(Mark[i])]) : i \in {1, 5, 6}}
  IN {R2Wrap(emb, v) : v \in vs}
R2Cases(z) ==
  {[u |-> [docs |-> <<[uri |-> RootU, s |-> R2Root(refs, emb)],
                      [uri |-> RemU, s |-> RemDoc(canon, ri)],
                      [uri |-> Rem2U(canon), s |-> Rem2Doc(Rem2Inner(canon, r2i))]>>],
    insts |-> SetToSeq(R2Insts(emb))] :
      refs \in RootRefs, emb \in (IF K >= 2 THEN BOOLEAN ELSE {FALSE}), canon \in {"none", "abs", "rel"},
      ri \in RemInner, r2i \in Rem2Kinds}

\* ------------------------------------------------------------ selection
\* ------------------------------------------------------------ R3: a Loader document refers to a resource EMBEDDED in the root
\* root.r -> mid.json -> emb.json (embedded under the root's $defs), by relative / absolute URI, with and without
\* fragments.  L0: the URI identifies the embedded resource.  The package asks the Loader for emb.json instead and
\* fails: known finding KF-crossdoc-C03 (every failure of these universes carries the feature "crossdoc-embedded").
MidU == H1(<<"dir", "mid.json">>)
R3Root == [defs |-> [t |-> Tgt(0), emb |-> [id |-> IdOf(RelRef(<<"emb.json">>)), const |-> Num(Mark[3]), defs |-> [t |-> Tgt(3)]]],
           properties |-> [r |-> [ref |-> RefTo(<<"mid.json">>, FragNone)]]]
R3Refs == {RefTo(<<"emb.json">>, FragNone), RefTo(<<"emb.json">>, FragName("a")), RefTo(<<"emb.json">>, PDefsT),
           Ref(H1(<<"dir", "emb.json">>), FragNone), Ref(H1(<<"dir", "emb.json">>), FragName("zz"))}
R3Cases == {[u |-> [docs |-> <<[uri |-> RootU, s |-> R3Root], [uri |-> MidU, s |-> m]>>],
             insts |-> [i \in 1..5 |-> Obj([r |-> Num(Mark[i])])]] :
               m \in {[ref |-> rf] : rf \in R3Refs} \cup {[items |-> [ref |-> rf]] : rf \in {RefTo(<<"emb.json">>, FragNone)}}}
AllCases == CASE Family = "R1" -> {c \in R1Cases(0) : DomainOK(c.u, "2020")}
              [] Family = "R2" -> {c \in R2Cases(0) : DomainOK(c.u, "2020")}
              [] Family = "R3" -> {c \in R3Cases : DomainOK(c.u, "2020")}

VARIABLES insts
mvars == <<U, dr, faults, loaded, calls, acts, infos, targets, status, insts>>

LoaderURIs(c) == {c.u.docs[d].uri : d \in DOMAIN c.u.docs \ {1}}

MCInit ==
  /\ \E c \in AllCases :
       /\ U = c.u
       /\ insts = c.insts
       /\ faults \in SUBSET LoaderURIs(c)
  /\ dr = "2020"
  /\ Init

MCNext == Next /\ UNCHANGED insts

Spec == MCInit /\ [][MCNext]_mvars /\ WF_mvars(MCNext)

Final == status \in {"ok", "err", "panic"}

UF == [docs |-> U.docs, faults |-> SetToSeq(faults)]
Feat == IF HasCrossEmb(U, dr) THEN <<"crossdoc-embedded">> ELSE <<>>
Emit ==
  Final =>
    PrintT(<<"CASE", ToJson(
      IF L0ok
        THEN [u |-> UF, insts |-> insts, res |-> "ok",
              exp |-> [i \in DOMAIN insts |-> IF Ev(U, dr, Addr(1, <<>>), insts[i], <<>>).ok THEN "T" ELSE "F"],
              loads |-> SetToSeq({U.docs[d].uri : d \in NeededDocs(U, dr) \ {1}}),
              targets |-> SetToSeq(DesignatedTargets(U, dr)), feat |-> Feat]
        ELSE [u |-> UF, insts |-> insts, res |-> "err", exp |-> <<>>, feat |-> Feat])>>)
====
