---- MODULE MC_Clone ----
(***************************************************************************)
(* C20: CloneSchemas yields an equal and fully independent tree.           *)
(* For every tree of the universe TLC clones it in the heap model and      *)
(* checks: same shape; no shared node id; the original is unchanged;       *)
(* mutating any node of one tree leaves the other's shape unchanged; a     *)
(* parent holding both is still a tree.  MUT_SkipField = f drops f from    *)
(* the field table (TLC must then find sharing).                           *)
(***************************************************************************)
EXTENDS Heap, Json, SequencesExt

CONSTANTS K, MUT_SkipField

VARIABLES cs, phase
vars == <<cs, phase>>

Fields == AllKW \ {MUT_SkipField}

Leaf(i) == [minLength |-> i]
OneUnder(kw, sub) ==
  IF kw \in SingleKW THEN (kw :> sub)
  ELSE IF kw \in SeqKW THEN (kw :> <<Leaf(7), sub>>)
  ELSE (kw :> (("k" :> sub) @@ ("z" :> Leaf(8))))
\* no Items with ItemsArray, no Defs with Definitions in one node
Excl(a, b) == {a, b} \in {{"items", "itemsArray"}, {"defs", "definitions"}}
D1 == {OneUnder(kw, Leaf(1)) : kw \in AllKW}
D2 == {OneUnder(k1, OneUnder(k2, Leaf(1))) : k1 \in AllKW, k2 \in AllKW}
Wide == {[kw \in AllKW \ {"itemsArray", "definitions"} |-> OneUnder(kw, Leaf(1))[kw]],
         [kw \in AllKW \ {"items", "defs"} |-> OneUnder(kw, OneUnder("not", Leaf(2)))[kw]]}
Empties == {[allOf |-> <<>>, properties |-> EmptyFcn, prefixItems |-> <<>>, defs |-> EmptyFcn], Leaf(0), TrueS,
            [anyOf |-> <<>>], [oneOf |-> <<>>], [itemsArray |-> <<>>], [properties |-> [a |-> [anyOf |-> <<>>, oneOf |-> <<>>]]],
            [items |-> [itemsArray |-> <<>>, patternProperties |-> EmptyFcn, dependentSchemas |-> EmptyFcn]],
            [allOf |-> <<[prefixItems |-> <<>>, depSchemas |-> EmptyFcn, definitions |-> EmptyFcn]>>]}
\* the empty schema ("true") and the falsy schema {"not": {}} as a child: they are Schema objects like any other
\* (a node that only LOOKS like false: "not": {} next to keywords kept in fields without a JSON name of their own -
\* type, the type list, unknown keywords, the property order)
FalsyLooking == {[not |-> EmptyFcn, type |-> "string"], [not |-> EmptyFcn, types |-> <<"null", "integer">>],
                 [not |-> EmptyFcn, extra |-> [x |-> Num(R_1)]], [not |-> EmptyFcn, title |-> "t"],
                 [not |-> EmptyFcn, properties |-> [a |-> Leaf(1)], propertyOrder |-> <<"a">>]}
TrueKids == {OneUnder(kw, EmptyFcn) : kw \in AllKW} \cup {OneUnder(kw, [not |-> EmptyFcn]) : kw \in AllKW}
            \cup FalsyLooking \cup {OneUnder(kw, f) : kw \in {"properties", "prefixItems", "depSchemas", "items", "not"}, f \in FalsyLooking}
            \cup {OneUnder(k1, OneUnder(k2, EmptyFcn)) : k1 \in {"items", "allOf", "properties", "not", "if"}, k2 \in AllKW}
\* bushy trees: several child-bearing nodes on one level, in every position (an iterative, level-by-level copy
\* has to reach each of them whatever their neighbours hold)
RECURSIVE Bushy(_)
Bushy(d) == IF d = 0 THEN Leaf(0) ELSE [allOf |-> <<Bushy(d - 1), Bushy(d - 1)>>, not |-> Bushy(d - 1)]
BushyTrees == {Bushy(2), Bushy(3),
               [allOf |-> <<[allOf |-> <<Leaf(1), Leaf(2)>>], [not |-> Leaf(3)]>>],
               [allOf |-> <<[allOf |-> <<Leaf(1), Leaf(2), Leaf(3)>>], Leaf(4), [properties |-> [k |-> [if |-> Leaf(5)]]]>>],
               [anyOf |-> <<Leaf(1), [anyOf |-> <<Leaf(2), [anyOf |-> <<Leaf(3), [not |-> Leaf(4)]>>]>>], [oneOf |-> <<Leaf(5), Leaf(6)>>]>>,
                properties |-> [a |-> [items |-> Leaf(7)], b |-> [prefixItems |-> <<Leaf(8), [contains |-> Leaf(9)]>>]]],
               [defs |-> [a |-> [defs |-> [x |-> Leaf(1), y |-> Leaf(2)]], b |-> [defs |-> [z |-> [not |-> Leaf(3)]]], c |-> Leaf(4)]]}
\* trees whose nodes declare anchors: a clone repeats them, and a parent holding the original and the clone
\* (one resource, the same anchor twice) still resolves
AnchorTrees == {[anchor |-> "tag"] @@ Leaf(1), [properties |-> [a |-> [anchor |-> "tag", minLength |-> 1]]],
                [allOf |-> <<[dynamicAnchor |-> "n"] @@ Leaf(1), [anchor |-> "m"] @@ Leaf(2)>>],
                [defs |-> [x |-> [anchor |-> "tag", not |-> [dynamicAnchor |-> "tag"] @@ Leaf(3)]]],
                [items |-> [anchor |-> "a", items |-> [anchor |-> "b"] @@ Leaf(1)]]}
\* LARGE trees (81, 144 and 273 Schema objects: whatever a clone allocates in bulk - 64, 128, 256 - is outgrown while
\* the walk is in the middle of a node), two and three levels, under list- and map-valued keywords
BigKeys == {"a", "b", "c", "d", "e", "f", "g", "h", "i", "j"}
Big(n, ks) == [allOf |-> [i \in 1..n |-> [properties |-> [k \in ks |-> Leaf(i)]]]]
BigTrees == {Big(10, {"a", "b", "c", "d", "e", "f", "g"}), Big(13, BigKeys),
             [defs |-> [k \in {"a", "b", "c", "d"} |-> [anyOf |-> [i \in 1..4 |-> [properties |-> [x \in BigKeys |-> [not |-> Leaf(i)]] @@ [y |-> Leaf(i + 1)]]]]]]}
\* trees whose nodes are schema RESOURCES ($id): a clone repeats the ids, and the parent holding both still resolves
IdAt(path) == [id |-> [u |-> URI("http", "h1", TRUE, path), f |-> ""]]
IdTrees == {[properties |-> [a |-> IdAt(<<"x.json">>) @@ [minLength |-> 1]]], [allOf |-> <<IdAt(<<"x.json">>) @@ Leaf(1), Leaf(2)>>],
            IdAt(<<"root.json">>) @@ [items |-> Leaf(1)], [defs |-> [k |-> IdAt(<<"d", "k.json">>) @@ [not |-> IdAt(<<"d", "n.json">>) @@ Leaf(3)]]]}
D3 == {OneUnder(k1, OneUnder(k2, OneUnder(k3, Leaf(1)))) : k1 \in {"items", "allOf", "properties", "not"}, k2 \in AllKW, k3 \in {"if", "oneOf", "depSchemas", "defs"}}
D3all == {OneUnder(k1, OneUnder(k2, OneUnder(k3, Leaf(1)))) : k1 \in AllKW, k2 \in AllKW, k3 \in {"if", "oneOf", "depSchemas", "defs", "items", "patternProperties"}}
Trees == IF K >= 3 THEN UNION {D1, D2, Wide, Empties, TrueKids, BushyTrees, AnchorTrees, IdTrees, BigTrees, D3, D3all} ELSE IF K >= 2 THEN UNION {D1, D2, Wide, Empties, TrueKids, BushyTrees, AnchorTrees, IdTrees, BigTrees, D3} ELSE UNION {D1, D2, Wide, Empties, TrueKids, BushyTrees, AnchorTrees, IdTrees, BigTrees}

Init == cs \in Trees /\ phase = "new"
Next == phase = "new" /\ phase' = "done" /\ cs' = cs
Spec == Init /\ [][Next]_vars

H0 == HeapOf(cs, "o")
H1 == Clone(H0, <<"o">>, "c", Fields)
CloneOK ==
  phase = "done" =>
    LET ro == Reach(H1, <<"o">>)
        rc == Reach(H1, <<"c">>)
    IN /\ Shape(H1, <<"c">>) = Shape(H0, <<"o">>)            \* equal
       /\ Shape(H1, <<"o">>) = Shape(H0, <<"o">>)            \* original untouched
       /\ ro \cap rc = {}                                     \* no shared Schema object
       /\ \A x \in rc : Shape(MutateContent(H1, x), <<"o">>) = Shape(H0, <<"o">>)
       /\ \A x \in ro : Shape(MutateContent(H1, x), <<"c">>) = Shape(H0, <<"o">>)

Emit == phase = "done" => PrintT(<<"CASE", ToJson([s |-> cs, nodes |-> Size(cs)])>>)
====
