---- MODULE JsonValue ----
(***************************************************************************)
(* The abstract JSON domain.  Numbers are ranks in the pool of Pools.tla   *)
(* (rank order = numeric order, rank equality = mathematical equality),    *)
(* strings are ids.  Every shape has its own field names so that TLC can   *)
(* compare any two values; TLA+ equality on these records IS JSON value    *)
(* equality (objects are functions, hence unordered).                      *)
(***************************************************************************)
EXTENDS Naturals, Sequences, FiniteSets, Pools

Null    == [t |-> "null"]
Bool(b) == [t |-> "bool", b |-> b]
Num(r)  == [t |-> "num", n |-> r]
Str(s)  == [t |-> "str", s |-> s]
Arr(e)  == [t |-> "arr", e |-> e]
Obj(m)  == [t |-> "obj", m |-> m]

\* the empty object is the empty FUNCTION (TLC refuses to compare the empty tuple with a record)
EmptyFcn == [x \in {} |-> x]
EmptyObj == Obj(EmptyFcn)
EmptyArr == Arr(<<>>)

\* An explicit finite function from a set of <<key, value>> pairs.
FunOf(pairs) == [k \in {p[1] : p \in pairs} |-> (CHOOSE p \in pairs : p[1] = k)[2]]

\* The JSON Schema "type" relation ("number" subsumes "integer").
HasType(v, ty) ==
  CASE ty = "null"    -> v.t = "null"
    [] ty = "boolean" -> v.t = "bool"
    [] ty = "number"  -> v.t = "num"
    [] ty = "integer" -> v.t = "num" /\ NumIsInt[v.n]
    [] ty = "string"  -> v.t = "str"
    [] ty = "array"   -> v.t = "arr"
    [] ty = "object"  -> v.t = "obj"
    [] OTHER          -> FALSE

TypeNames == {"null", "boolean", "number", "integer", "string", "array", "object"}

Names(v) == DOMAIN v.m          \* property names of an object value
Len0(v)  == Len(v.e)            \* length of an array value

SeqToSet(s) == {s[i] : i \in DOMAIN s}

\* no two positions hold the same JSON value
AllDistinct(e) == \A i, j \in DOMAIN e : i < j => e[i] # e[j]
====
