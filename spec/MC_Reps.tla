---- MODULE MC_Reps ----
(***************************************************************************)
(* C11 Equal, C12 enum/const/uniqueItems, C08 representation independence. *)
(* Families:                                                               *)
(*   EQ  x in all representations of a pool of plain values; the row of    *)
(*       SameJSON(x, y) over all y; TLC checks EqualCode = SameJSON, and   *)
(*       symmetry / transitivity of EqualCode on the pool                  *)
(*   HU  uniqueItems through seeded hash buckets: for EVERY hash function  *)
(*       satisfying the law Equal => same hash, the bucket scan returns    *)
(*       the pairwise verdict (seed independence as a theorem)             *)
(*   UA  arrays in mixed representations x uniqueItems / enum / const      *)
(*   RV  schema pool x represented values: verdict is that of Den(v)       *)
(***************************************************************************)
EXTENDS Reps, Eval, Json, TLCExt, SequencesExt

CONSTANTS Family, K, MUT_ScanLastOnly

VARIABLES cs, phase, res
vars == <<cs, phase, res>>


\* ------------------------------------------------------------ pools
NR1 == {"float64", "int", "int8", "uint8", "int64", "uint64", "float32", "jsonNumber", "jsonNumberE", "namedInt", "negzero"}
NR2 == {"float64", "int", "jsonNumber"}
AR == {"any", "typed", "array", "arrayany"}
OR == {"any", "typed", "namedkey", "numberkey"}     \* numberkey: map[json.Number]any (json.Number is a string-kind key type)
Wraps == {<<>>, <<"ptr">>, <<"iface", "ptr">>}

PlainScalars ==
  {Null, Bool(TRUE), Bool(FALSE), Num(R_0), Num(R_1), Num(R_1h), Num(R_2), Num(R_2p53), Num(R_2p53p1), Num(R_i64max),
   Num(R_m1), Num(R_m1h), Num(R_mh), Num(R_h), Num(R_m128), Num(R_i64min), Num(R_m2p53),    \* (-1/2: negative with integer part zero)
   Num(R_2p63), Num(R_u64max), Num(R_p3), Num(R_p1p2), Str("1"), Str("a"), Str(""), Str("U_e1"), Str("U_e2"), Str("0")}
PlainContainers ==
  {EmptyArr, Arr(<<Num(R_1)>>), Arr(<<Num(R_1), Num(R_2)>>), Arr(<<Num(R_2), Num(R_1)>>), Arr(<<Arr(<<Num(R_1)>>)>>),
   Arr(<<Num(R_1), Str("a")>>), Arr(<<Null>>), Arr(<<Str("1")>>),
   EmptyObj, Obj([a |-> Num(R_1)]), Obj([a |-> Num(R_2)]), Obj([b |-> Num(R_1)]), Obj([a |-> Num(R_1), b |-> Num(R_2)]),
   Obj([a |-> Arr(<<Num(R_1)>>)]), Obj(("U_e1" :> Num(R_1))), Obj(("U_e2" :> Num(R_1))), Obj([a |-> Null]),
   Arr(<<Obj([a |-> Num(R_1)])>>), Obj(("1" :> Num(R_1))), Obj(("1" :> Str("1")))}      \* (member names that look like numbers)
\* null carried as a typed nil pointer (inside an interface element that is a non-nil interface holding nil)
NilPtr == [t |-> "null", r |-> "nilptr"]
EQNilPtr == {NilPtr, [t |-> "arr", e |-> <<NilPtr>>, r |-> "any"], [t |-> "arr", e |-> <<NilPtr>>, r |-> "arrayany"],
             [t |-> "obj", m |-> [a |-> NilPtr], r |-> "any"], [t |-> "arr", e |-> <<NilPtr, [t |-> "null", r |-> "nil"]>>, r |-> "any"]}
\* null behind two levels of indirection, in pairs of ONE Go type: (**int)(nil) / &(*int)(nil), (*any)(nil) / &any(nil)
NullDeep == {[t |-> "null", r |-> x] : x \in {"nilpp", "ptrnilp", "nilpany", "ptrnilany"}}
EQNullDeep == NullDeep
              \cup {[t |-> "arr", e |-> <<x, y>>, r |-> rp] : x \in NullDeep, y \in NullDeep, rp \in {"any", "typed"}}
              \cup {[t |-> "obj", m |-> [a |-> x], r |-> rp] : x \in NullDeep, rp \in {"any", "typed"}}
EQPool(z) ==
  EQNilPtr \cup EQNullDeep \cup
  UNION {WithWraps(RepsOf(v, NR1, AR, OR), IF K >= 2 THEN Wraps ELSE {<<>>, <<"ptr">>}) : v \in PlainScalars}
  \cup UNION {WithWraps(RepsOf(v, NR2, AR, OR), {<<>>, <<"ptr">>}) : v \in PlainContainers}

\* ------------------------------------------------------------ uniqueItems / enum / const
UAElems == {Num(R_0), Num(R_m1), Num(R_1), Str("1"), Null, Bool(TRUE), Arr(<<Num(R_m1)>>), Obj([a |-> Num(R_0)]), Num(R_2p63)}
               \cup (IF K >= 2 THEN {Str("a"), Num(R_2), Obj([a |-> Num(R_1), b |-> Num(R_2)])} ELSE {})
UAColl == {Null, Bool(FALSE), Bool(TRUE), Num(R_0), Str(""), EmptyArr, EmptyObj, Arr(<<Null>>), Arr(<<Bool(FALSE)>>),
           Arr(<<Str("ab"), Str("a")>>), Arr(<<Str("a"), Str("ba")>>), Obj([a |-> Str("ba")]), Obj([ab |-> Str("a")]), Str("aba")}
UAColl2 == {Null, Bool(FALSE), Arr(<<Null>>), Arr(<<Bool(FALSE)>>), Arr(<<Bool(TRUE)>>)}
\* a duplicate separated from its twin by items that are likely to share its hash bucket under a
\* simple hash (null / false / 0 / "" / empty containers; sequences with the same concatenation):
\* every earlier item with the same hash must be compared, not only the latest.  (few representations:
\* the point is the position of the twin, not how it is carried)
UACollPlain == {Arr(<<x, y, x>>) : x \in UAColl, y \in UAColl} \cup {Arr(<<x, y, w, x>>) : x \in UAColl2, y \in UAColl2, w \in UAColl2}
\* byte strings: []uint8 / [N]uint8 next to the same list carried as []any / []float64 (an implementation that
\* treats []byte specially must still agree with the element-wise reading)
UABytesReps == UNION {RepsOf(v, {"uint8", "float64"}, {"typed", "any", "array"}, {"any"}) :
                        v \in {Arr(<<Arr(<<Num(R_1)>>), Arr(<<Num(R_1)>>)>>), Arr(<<Arr(<<Num(R_1), Num(R_0)>>), Arr(<<Num(R_1), Num(R_0)>>)>>),
                               Arr(<<Arr(<<Num(R_1), Num(R_0)>>), Arr(<<Num(R_0), Num(R_1)>>)>>), Arr(<<EmptyArr, Arr(<<Num(R_0)>>)>>)}}
\* arrays of arrays for the schemas that run several uniqueItems checks in one call
UANestedPlain == {Arr(<<Arr(<<Num(R_1), Num(R_1)>>), Arr(<<Num(R_1), Num(R_2)>>)>>), Arr(<<Arr(<<Num(R_1), Num(R_2)>>), Arr(<<Num(R_1), Num(R_1)>>)>>),
                  Arr(<<Arr(<<Num(R_2), Num(R_2)>>), Arr(<<Num(R_2), Num(R_0)>>), Arr(<<Num(R_0), Num(R_2)>>)>>),
                  Arr(<<Num(R_0), Arr(<<Num(R_0), Num(R_0)>>)>>), Arr(<<Arr(<<Num(R_0), Num(R_0)>>), Num(R_0)>>),
                  Arr(<<Arr(<<Null, Null>>), Arr(<<Null>>), Arr(<<Null, Num(R_1)>>)>>),
                  Arr(<<Arr(<<Str("1"), Str("1"), Str("a")>>), Arr(<<Str("a"), Str("1")>>), Arr(<<Str("a"), Str("a")>>)>>)}
UANestedReps == UNION {RepsOf(v, {"float64"}, {"any"}, {"any"}) : v \in UANestedPlain}
UACollReps == UNION {RepsOf(v, {"float64"}, {"any"}, {"any"}) : v \in UACollPlain}
\* (K >= 2: all pairs over the larger element set, all triples over a core of one value per JSON type)
UACore == {Num(R_0), Num(R_1), Str("1"), Null, Arr(<<Num(R_m1)>>)}
UAPlain(z) == {Arr(e) : e \in UNION {[1..n -> UAElems] : n \in 0..2}}
              \cup (IF K >= 2 THEN {Arr(e) : e \in [1..3 -> UACore]} ELSE {})
              \cup {Arr(<<Num(R_1), Num(R_2), Num(R_0), x, Num(R_1h)>>) : x \in {Num(R_1), Num(R_4), Num(R_0)}}
\* objects whose member names look like numbers ("1", "0", "-0"), carried as map[string]any, map[K]any (K a defined
\* string type) and map[json.Number]any in every mix: a member NAME is a string whatever the key type is
UAKeyedPlain == {Arr(<<Obj(("1" :> Num(R_1))), Obj(("1" :> Num(R_1)))>>), Arr(<<Obj(("1" :> Num(R_1))), Obj(("0" :> Num(R_1)))>>),
                 Arr(<<Obj(("0" :> Num(R_0))), Obj(("0" :> Num(R_0)))>>), Arr(<<Obj(("1" :> Str("1"))), Obj(("1" :> Num(R_1)))>>),
                 Arr(<<Obj(("1" :> Num(R_1)) @@ ("0" :> Num(R_0))), Obj(("0" :> Num(R_0)) @@ ("1" :> Num(R_1)))>>)}
UAKeyedReps == UNION {RepsOf(v, {"float64"}, {"any"}, {"any", "namedkey", "numberkey"}) : v \in UAKeyedPlain}
\* objects with MANY members (9, 12): equal ones are duplicates however many members there are
WKeys9 == {"a", "b", "c", "ab", "ba", "abc", "aa", "z", "B"}
WObj(ks, x) == Obj([k \in ks |-> x])
UAWidePlain == {Arr(<<WObj(WKeys9, Num(R_1)), WObj(WKeys9, Num(R_1))>>), Arr(<<WObj(WKeys9, Num(R_1)), Num(R_1), WObj(WKeys9, Num(R_1))>>),
                Arr(<<WObj(WKeys9, Num(R_1)), Obj([k \in WKeys9 |-> IF k = "z" THEN Num(R_2) ELSE Num(R_1)])>>),
                Arr(<<WObj(WKeys9 \cup {"A", "10", "9"}, Num(R_2)), WObj(WKeys9 \cup {"A", "10", "9"}, Num(R_2))>>)}
UAWideReps == UNION {RepsOf(v, {"float64"}, {"any"}, {"any", "namedkey"}) : v \in {x \in UAWidePlain : Len(x.e) = 2}}
              \cup UNION {RepsOf(v, {"jsonNumber"}, {"any"}, {"any"}) : v \in UAWidePlain}
              \cup UNION {RepsOf(v, {"float64"}, {"any"}, {"any"}) : v \in UAWidePlain}
UAReps(v) == RepsOf(v, IF K >= 2 THEN {"float64", "int", "jsonNumber", "uint64"} ELSE {"float64", "jsonNumber", "negzero", "uint64"}, {"any", "arrayany", "array"}, IF K >= 2 THEN {"any", "typed"} ELSE {"any"})
UASchemas == <<[uniqueItems |-> TRUE],
               [enum |-> <<Num(R_1), Str("a"), Arr(<<Num(R_m1)>>), Obj([a |-> Num(R_1)]), Arr(<<Num(R_1), Num(R_m1)>>), Null>>],
               [const |-> Arr(<<Num(R_m1)>>)], [const |-> Arr(<<Num(R_1), Num(R_1)>>)],
               [const |-> Arr(<<Obj([a |-> Num(R_1)])>>)], [enum |-> <<>>], [const |-> Null],
               [items |-> [enum |-> <<Num(R_1), Obj([a |-> Num(R_1), b |-> Num(R_2)])>>]],
               [items |-> [const |-> Str("1")]],
               \* enum AND const in one schema object: both must hold
               [items |-> [enum |-> <<Num(R_1), Str("1"), Null>>, const |-> Num(R_1)]], [items |-> [enum |-> <<Num(R_0), Null>>, const |-> Num(R_1)]],
               [items |-> [enum |-> <<>>, const |-> Null]],
               [enum |-> <<Arr(<<Num(R_m1)>>), Arr(<<Num(R_1), Num(R_1)>>)>>, const |-> Arr(<<Num(R_m1)>>)],
               \* several uniqueItems checks within ONE Validate call, an earlier one failing inside an applicator that
               \* tolerates failure: every check starts from nothing
               [prefixItems |-> <<[not |-> [uniqueItems |-> TRUE]], [uniqueItems |-> TRUE]>>],
               [contains |-> [uniqueItems |-> TRUE], minContains |-> 2],
               [anyOf |-> <<[items |-> [uniqueItems |-> TRUE]], [uniqueItems |-> TRUE]>>],
               [items |-> [anyOf |-> <<[uniqueItems |-> TRUE], [type |-> "array"]>>], uniqueItems |-> TRUE]>>

\* ------------------------------------------------------------ RV representation independence
RVPlain ==
  {Num(R_1), Num(R_1h), Num(R_3), Num(R_256), Num(R_2p53p1), Str("a"), Str("U_e1"), Str("1"), Null, Bool(TRUE),
   Arr(<<Num(R_1), Num(R_1)>>), Arr(<<Num(R_1), Num(R_3)>>), Arr(<<Str("a")>>), Arr(<<Arr(<<Num(R_1)>>)>>), Num(R_0),
   Arr(<<Arr(<<Num(R_1)>>), Arr(<<Num(R_1)>>)>>), Arr(<<Num(R_0), Num(R_0)>>),
   Obj([a |-> Num(R_1)]), Obj([a |-> Num(R_3), b |-> Num(R_1)]), Obj([a |-> Arr(<<Num(R_1)>>)]),
   Arr(<<Obj([a |-> Num(R_1)])>>), Obj([ab |-> Str("a")]), EmptyObj, EmptyArr,
   \* integers beyond int64 (exact in uint64 and float64) and at its edge
   Arr(<<Str("b"), Str("a"), Str("ab")>>), Arr(<<Num(R_3), Num(R_1), Num(R_256)>>),      \* (not in any sorted order)
   Num(R_2p63), Arr(<<Num(R_2p63), Num(R_2p63)>>), Arr(<<Num(R_i64max), Num(R_i64max)>>),
   Arr(<<Obj([a |-> Num(R_2p63)]), Obj([a |-> Num(R_2p63)])>>), Arr(<<Num(R_i64min), Num(R_i64min)>>),
   \* the last integer float32 holds exactly before its grid widens to 2, and 1/2 (bounds next to them below)
   Num(R_2p24), Num(R_h), Arr(<<Num(R_2p24), Num(R_h)>>), Obj([a |-> Num(R_2p24)]),
   \* 1 + 2^-23: a single (and a double) whose exact decimal expansion is longer than its shortest round-trip text
   Num(R_1eps32), Arr(<<Num(R_1eps32), Num(R_1eps32)>>), Arr(<<Num(R_1eps32), Num(R_1)>>)}
RVReps(z) ==
  {PtrKids(x) : x \in UNION {RepsOf(v, {"float64", "int"}, {"any", "typed"}, {"any", "typed"}) : v \in {y \in RVPlain : y.t \in {"arr", "obj"}}}}
  \cup UNION {WithWraps(RepsOf(v, IF K >= 2 THEN NR1 ELSE {"float64", "int", "jsonNumberE", "jsonNumber", "uint64", "uint8"}, AR, OR),
                   IF v.t \in {"arr", "obj"} THEN {<<>>, <<"ptr">>} ELSE Wraps) : v \in RVPlain}
  \* single precision throughout (float32, []float32, map[string]float32 ...): only values float32 holds exactly
  \cup UNION {WithWraps(RepsOf(v, {"float32"}, AR, OR), {<<>>, <<"ptr">>}) : v \in RVPlain}
  \cup RepsOf(Arr(<<Num(R_1eps32), Num(R_1eps32)>>), {"float32", "float64", "jsonNumber"}, {"any"}, {"any"})
IntS == [type |-> "integer"]
RVSchemas ==
  <<[type |-> "integer"], [type |-> "number"], [type |-> "string"], [type |-> "array"], [type |-> "object"], [type |-> "null"],
    [types |-> <<"string", "null">>], [enum |-> <<Num(R_1), Str("1"), Arr(<<Num(R_1), Num(R_3)>>), Obj([a |-> Num(R_1)])>>],
    [const |-> Num(R_3)], [const |-> Obj([a |-> Arr(<<Num(R_1)>>)])], [const |-> Str("1")], [enum |-> <<Str("1"), Str("a")>>],
    [items |-> [not |-> [const |-> Str("1")]]], [uniqueItems |-> TRUE, items |-> [type |-> "number"]],
    [minimum |-> R_2], [maximum |-> R_2], [exclusiveMinimum |-> R_1], [exclusiveMaximum |-> R_3], [multipleOf |-> R_1h],
    [minLength |-> 2], [maxLength |-> 0], [pattern |-> "^a"],
    [items |-> IntS], [prefixItems |-> <<[const |-> Num(R_1)]>>, items |-> [minimum |-> R_3]], [contains |-> [const |-> Num(R_3)]],
    [uniqueItems |-> TRUE], [minItems |-> 2], [maxItems |-> 1], [unevaluatedItems |-> FalseS, prefixItems |-> <<IntS>>],
    [properties |-> [a |-> IntS]], [properties |-> [a |-> [maximum |-> R_1]]], [patternProperties |-> ("^a" :> IntS)],
    [additionalProperties |-> FalseS, properties |-> [a |-> TrueS]], [additionalProperties |-> IntS],
    [required |-> <<"b">>], [minProperties |-> 2], [maxProperties |-> 0], [propertyNames |-> [maxLength |-> 1]],
    [dependentRequired |-> [a |-> <<"b">>]], [dependentSchemas |-> [a |-> [required |-> <<"b">>]]],
    [unevaluatedProperties |-> FalseS, properties |-> [a |-> TrueS]],
    [items |-> [properties |-> [a |-> [const |-> Num(R_1)]]]], [items |-> [items |-> [type |-> "integer"]]],
    [not |-> [type |-> "number"]], [anyOf |-> <<[type |-> "string"], [minimum |-> R_2]>>],
    \* bounds that are doubles but not singles, one grid step from an instance that is both
    [minimum |-> R_1eps32], [maximum |-> R_1eps32], [const |-> Num(R_1eps32)], [items |-> [enum |-> <<Num(R_1eps32), Str("a")>>]],
    [exclusiveMaximum |-> R_2p24p1], [minimum |-> R_2p24p1], [minimum |-> R_hEps], [exclusiveMinimum |-> R_h, maximum |-> R_hEps],
    [items |-> [exclusiveMaximum |-> R_2p24p1]], [properties |-> [a |-> [not |-> [minimum |-> R_2p24p1]]]],
    \* multipleOf beyond the domain of L0 (verdicts "x"): the replay takes the canonical decoding's verdict as the oracle
    [multipleOf |-> R_3], [multipleOf |-> R_2], [multipleOf |-> R_1],
    \* one subschema object applied twice to the same place of the instance, the first time inside an applicator
    \* that tolerates failure (what the evaluator remembers about a visit must not depend on how the value is held)
    [defs |-> [o |-> [properties |-> [a |-> [minimum |-> R_2]]]],
     anyOf |-> <<[ref |-> LocalRef(FragPtr(<<SegN("defs", "o")>>)), required |-> <<"b">>], [ref |-> LocalRef(FragPtr(<<SegN("defs", "o")>>))]>>],
    [defs |-> [o |-> [items |-> [minimum |-> R_2]]],
     if |-> [ref |-> LocalRef(FragPtr(<<SegN("defs", "o")>>))], then |-> TrueS, else |-> [ref |-> LocalRef(FragPtr(<<SegN("defs", "o")>>))]],
    [defs |-> [o |-> [properties |-> [a |-> [type |-> "string"]], items |-> [type |-> "string"]]],
     allOf |-> <<[not |-> [not |-> [ref |-> LocalRef(FragPtr(<<SegN("defs", "o")>>))]]], [ref |-> LocalRef(FragPtr(<<SegN("defs", "o")>>))]>>],
    [defs |-> [o |-> [properties |-> [a |-> [maximum |-> R_1]]]],
     oneOf |-> <<[ref |-> LocalRef(FragPtr(<<SegN("defs", "o")>>))], [ref |-> LocalRef(FragPtr(<<SegN("defs", "o")>>)), required |-> <<"a">>]>>]>>

\* ------------------------------------------------------------ machine
Single(s) == [docs |-> <<[uri |-> EmptyURI, s |-> s]>>]
\* (zero-arity constants are evaluated eagerly by TLC, whatever the family: guard them)
EQSeq == IF Family = "EQ" THEN SetToSeq(EQPool(0)) ELSE <<>>
RVSeq == IF Family = "RV" THEN SetToSeq(RVReps(0)) ELSE <<>>

Cases ==
  CASE Family = "EQ" -> EQPool(0)
    [] Family = "UA" -> UNION {UAReps(v) : v \in UAPlain(0)} \cup UACollReps \cup UABytesReps \cup UANestedReps \cup UAKeyedReps \cup UAWideReps
    [] Family = "RV" -> {RVSchemas[i] : i \in DOMAIN RVSchemas}
    [] Family = "HU" -> {Arr(e) : e \in UNION {[1..n -> {Num(R_1), Num(R_2), Str("a")}] : n \in 0..4}}

Init == cs \in Cases /\ phase = "new" /\ res = <<>>

InMultDomain(s, v) == (v.t = "num" /\ Has(s, "multipleOf")) => v.n \in NumSmall
Tf(b) == IF b THEN "T" ELSE "F"
Next ==
  /\ phase = "new" /\ phase' = "done" /\ cs' = cs
  /\ res' = CASE Family = "EQ" -> [j \in DOMAIN EQSeq |-> Tf(SameJSON(cs, EQSeq[j]))]
              [] Family = "UA" -> [j \in DOMAIN UASchemas |-> Tf(Ev(Single(UASchemas[j]), "2020", Addr(1, <<>>), Den(cs), <<>>).ok)]
              [] Family = "RV" -> [j \in DOMAIN RVSeq |->
                                     IF InMultDomain(cs, RVSeq[j])
                                       THEN Tf(Ev(Single(cs), "2020", Addr(1, <<>>), Den(RVSeq[j]), <<>>).ok) ELSE "x"]
              [] Family = "HU" -> <<Tf(AllDistinct(cs.e))>>
Spec == Init /\ [][Next]_vars

\* ---- C11: the code's case analysis is JSON equality; hence an equivalence
EqualRefines ==
  (Family = "EQ" /\ phase = "done") =>
     \A j \in DOMAIN EQSeq : /\ EqualCode(cs, EQSeq[j]) = (res[j] = "T")
                             /\ EqualCode(EQSeq[j], cs) = (res[j] = "T")
\* ---- C08: classification is representation independent
ClassRefines ==
  (Family = "EQ" /\ phase = "done") =>
     /\ JsonTypeCode(cs) = JsonTypeSpec(cs)
     /\ (Kind(cs) = "string" /\ ~(cs.t = "num" /\ ~DEV_JsonNumberIsString)) = (cs.t = "str")
\* ---- C12: seeded hash buckets.  hash : positions -> buckets is ARBITRARY
\* subject to the law; the scan of validate.go lines 411-427 then equals the
\* pairwise definition.
RECURSIVE Scan(_, _, _)
\* returns TRUE iff the scan finds no duplicate
\* (MUT_ScanLastOnly: the bucket keeps only the latest index with that hash - a duplicate of an OLDER
\* member of the same collision chain is then missed; TLC must find it)
Scan(e, h, i) ==
  IF i > Len(e) THEN TRUE
  ELSE IF \E j \in 1..(i - 1) : /\ h[j] = h[i] /\ EqualCode(e[i], e[j])
                                /\ (MUT_ScanLastOnly => \A k \in (j + 1)..(i - 1) : h[k] # h[i]) THEN FALSE
  ELSE Scan(e, h, i + 1)
HashLaw(e, h) == \A i, j \in DOMAIN e : SameJSON(e[i], e[j]) => h[i] = h[j]
HashTheorem ==
  (Family = "HU" /\ phase = "done") =>
     \A h \in [DOMAIN cs.e -> 1..3] : HashLaw(cs.e, h) => (Scan(cs.e, h, 1) = (res[1] = "T"))
\* with the law dropped a duplicate is missed (non-vacuity): checked by the
\* selftest as MUT_NoHashLaw
NoLawMissesDuplicate ==
  (Family = "HU" /\ phase = "done") =>
     \A h \in [DOMAIN cs.e -> 1..3] : (Scan(cs.e, h, 1) = (res[1] = "T"))

Emit ==
  phase = "done" =>
    PrintT(<<"CASE", ToJson(
       CASE Family = "EQ" -> [x |-> cs, exp |-> res]
         [] Family = "UA" -> [v |-> cs, exp |-> res]
         [] Family = "RV" -> [s |-> cs, exp |-> res]
         [] Family = "HU" -> [v |-> cs, exp |-> res])>>)

ASSUME Family = "EQ" => PrintT(<<"YS", ToJson(EQSeq)>>)
ASSUME Family = "UA" => PrintT(<<"SCHEMAS", ToJson(UASchemas)>>)
ASSUME Family = "HU" => PrintT(<<"SCHEMAS", ToJson(<<[uniqueItems |-> TRUE]>>)>>)
ASSUME Family = "RV" => PrintT(<<"VS", ToJson(RVSeq)>>)
====
