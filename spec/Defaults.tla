---- MODULE Defaults ----
(***************************************************************************)
(* C15: ApplyDefaults / ValidateDefaults.                                  *)
(* L1  Apply(s, v) - the walk of state.applyDefaults over abstract      *)
(*     values: only through "properties", skipping required properties;    *)
(*     missing + default -> default (completed recursively); present ->    *)
(*     recurse; missing + defaults somewhere below -> fresh {} completed   *)
(*     recursively (and, after fix, inserted only if it received something)*)
(* L0  laws: idempotent; preserving; never fills a required property;      *)
(*     every inserted value is the declared default recursively completed, *)
(*     or a container that holds at least one declared default.            *)
(* Deviation switch DEV_EmptyContainerDefault: the code before the fix     *)
(* inserted the empty {} when all nested defaults sat on required props.   *)
(***************************************************************************)
EXTENDS Eval

CONSTANT DEV_EmptyContainerDefault

\* Seeded mutations of applyDefaults (MUT_Defaults = "none": the code as it is; each other value must be refuted):
\*   "reqFirstBranchOnly"  only the "missing + own default" branch honours `required`
\*   "requiredOneLevel"    the container is created when a default exists below, `required` looked at one level only
\*   "typedObjectOnly"     an inserted default is completed with nested defaults only if type is exactly "object"
CONSTANT MUT_Defaults

IsReq(s, p) == "required" \in DOMAIN s /\ \E i \in DOMAIN s.required : s.required[i] = p
IsObjS(s) == ~("bool" \in DOMAIN s)

RECURSIVE HasDefaultsInProps(_)
HasDefaultsInProps(s) ==
  IsObjS(s) /\ ("default" \in DOMAIN s
                \/ ("properties" \in DOMAIN s /\ \E p \in DOMAIN s.properties : HasDefaultsInProps(s.properties[p])))

RECURSIVE Apply(_, _)
Apply(s, v) ==
  IF v.t # "obj" \/ ~IsObjS(s) \/ ~("properties" \in DOMAIN s) THEN v
  ELSE LET ps == IF MUT_Defaults = "reqFirstBranchOnly" THEN DOMAIN s.properties ELSE {p \in DOMAIN s.properties : ~IsReq(s, p)}
           sub(p) == s.properties[p]
           \* (mutation requiredOneLevel) a default applies somewhere below, required honoured at this level only
           Applicable1(t) == IsObjS(t) /\ "properties" \in DOMAIN t
                             /\ \E q \in DOMAIN t.properties : ~IsReq(t, q) /\ HasDefaultsInProps(t.properties[q])
           \* what p maps to afterwards (or "absent")
           after(p) ==
             IF p \in DOMAIN v.m THEN <<Apply(sub(p), v.m[p])>>
             ELSE IF IsObjS(sub(p)) /\ "default" \in DOMAIN sub(p)
               THEN (IF MUT_Defaults = "reqFirstBranchOnly" /\ IsReq(s, p) THEN <<>>
                     ELSE IF MUT_Defaults = "typedObjectOnly" /\ ~("type" \in DOMAIN sub(p) /\ sub(p).type = "object") THEN <<sub(p).default>>
                     ELSE <<Apply(sub(p), sub(p).default)>>)
             ELSE IF MUT_Defaults = "requiredOneLevel"
               THEN (IF Applicable1(sub(p)) THEN <<Apply(sub(p), EmptyObj)>> ELSE <<>>)
             ELSE IF HasDefaultsInProps(sub(p))
               THEN LET c == Apply(sub(p), EmptyObj)
                    IN IF DEV_EmptyContainerDefault \/ DOMAIN c.m # {} THEN <<c>> ELSE <<>>
             ELSE <<>>
           newKeys == DOMAIN v.m \cup {p \in ps : after(p) # <<>>}
       IN Obj([k \in newKeys |-> IF k \in ps THEN after(k)[1] ELSE v.m[k]])

\* ---- L0 laws ----
\* v is preserved in w: everything present stays, with the same scalar values
RECURSIVE Preserved(_, _)
Preserved(v, w) ==
  IF v.t # "obj" THEN v = w
  ELSE w.t = "obj" /\ DOMAIN v.m \subseteq DOMAIN w.m /\ \A k \in DOMAIN v.m : Preserved(v.m[k], w.m[k])

\* the default of s, recursively completed with nested defaults
Complete(s) == Apply(s, s.default)

\* w (inserted where nothing was) is justified by schema s
RECURSIVE Justified(_, _)
Justified(s, w) ==
  \/ (IsObjS(s) /\ "default" \in DOMAIN s /\ w = Complete(s))
  \/ /\ w.t = "obj" /\ DOMAIN w.m # {} /\ IsObjS(s) /\ "properties" \in DOMAIN s
     /\ \A k \in DOMAIN w.m : k \in DOMAIN s.properties /\ ~IsReq(s, k) /\ Justified(s.properties[k], w.m[k])

\* every insertion made by going from v to w under schema s is justified
RECURSIVE InsertionsOK(_, _, _)
InsertionsOK(s, v, w) ==
  IF v.t # "obj" THEN v = w
  ELSE /\ w.t = "obj"
       /\ \A k \in DOMAIN w.m :
            IF k \in DOMAIN v.m
              THEN IF IsObjS(s) /\ "properties" \in DOMAIN s /\ k \in DOMAIN s.properties /\ ~IsReq(s, k)
                     THEN InsertionsOK(s.properties[k], v.m[k], w.m[k]) ELSE v.m[k] = w.m[k]
              ELSE /\ IsObjS(s) /\ "properties" \in DOMAIN s /\ k \in DOMAIN s.properties
                   /\ ~IsReq(s, k)
                   /\ Justified(s.properties[k], w.m[k])

Laws(s, v) ==
  LET w == Apply(s, v)
  IN /\ Apply(s, w) = w
     /\ Preserved(v, w)
     /\ InsertionsOK(s, v, w)

\* ValidateDefaults: every default validates against the subschema that declares it
Single(s) == [docs |-> <<[uri |-> EmptyURI, s |-> s]>>]
\* (U: the root document first, then whatever the Loader serves; only the ROOT document's tree is walked)
DefaultsValidU(U) ==
  LET s == U.docs[1].s
  IN \A p \in AllPaths(s) :
       LET n == NodeAtS(s, p)
       IN (IsObjS(n) /\ "default" \in DOMAIN n) => Ev(U, "2020", Addr(1, p), n.default, <<>>).ok
DefaultsValid(s) ==
  \A p \in AllPaths(s) :
     LET n == NodeAtS(s, p)
     IN (IsObjS(n) /\ "default" \in DOMAIN n) => Ev(Single(s), "2020", Addr(1, p), n.default, <<>>).ok
====
