---- MODULE Eval ----
(***************************************************************************)
(* L0: the validity relation of JSON Schema draft 2020-12 and draft-07,    *)
(* written from the specifications (core + validation), with the package's *)
(* documented deviations: format and content keywords never assert;        *)
(* patterns are whatever the Match table says.                             *)
(*                                                                         *)
(* Ev(U, dr, a, v, scope) evaluates instance v against the schema at       *)
(* address a of universe U under draft dr ("2020" | "d7") in dynamic       *)
(* scope `scope` (sequence of resource addresses entered so far,           *)
(* outermost first).  It returns                                           *)
(*    [ok, props, items]                                                   *)
(* ok    : the assertion result                                            *)
(* props : annotation - property names of v successfully evaluated at     *)
(*         this instance location by this schema object and its in-place   *)
(*         subschemas (empty when ~ok: failed subschemas drop annotations) *)
(* items : annotation - likewise, indexes (1-based) of evaluated items     *)
(***************************************************************************)
EXTENDS Resolve

R(ok, props, items) == [ok |-> ok, props |-> IF ok THEN props ELSE {}, items |-> IF ok THEN items ELSE {}]
Fail == R(FALSE, {}, {})
Pass == R(TRUE, {}, {})

Child(a, seg) == Addr(a.d, Append(a.p, seg))
Has(s, k) == k \in DOMAIN s

Min2(a, b) == IF a < b THEN a ELSE b

\* ---- assertions that look at the instance only ----
TypeOK(s, v) ==
  /\ Has(s, "type")  => HasType(v, s.type)
  /\ Has(s, "types") => \E i \in DOMAIN s.types : HasType(v, s.types[i])

EnumOK(s, v) ==
  /\ Has(s, "enum")  => \E i \in DOMAIN s.enum : s.enum[i] = v
  /\ Has(s, "const") => s.const = v

NumOK(s, v) ==
  v.t = "num" =>
    /\ Has(s, "multipleOf")       => NumDiv[s.multipleOf][v.n]
    /\ Has(s, "minimum")          => v.n >= s.minimum
    /\ Has(s, "maximum")          => v.n <= s.maximum
    /\ Has(s, "exclusiveMinimum") => v.n > s.exclusiveMinimum
    /\ Has(s, "exclusiveMaximum") => v.n < s.exclusiveMaximum

StrOK(s, v) ==
  v.t = "str" =>
    /\ Has(s, "minLength") => CpLen[v.s] >= s.minLength
    /\ Has(s, "maxLength") => CpLen[v.s] <= s.maxLength
    /\ Has(s, "pattern")   => Match[s.pattern][v.s]

ArrCountsOK(s, v) ==
  v.t = "arr" =>
    /\ Has(s, "minItems") => Len(v.e) >= s.minItems
    /\ Has(s, "maxItems") => Len(v.e) <= s.maxItems
    /\ (Has(s, "uniqueItems") /\ s.uniqueItems) => AllDistinct(v.e)

ObjCountsOK(dr, s, v) ==
  v.t = "obj" =>
    /\ Has(s, "minProperties") => Cardinality(Names(v)) >= s.minProperties
    /\ Has(s, "maxProperties") => Cardinality(Names(v)) <= s.maxProperties
    /\ Has(s, "required") => \A i \in DOMAIN s.required : s.required[i] \in Names(v)
    /\ (dr = "2020" /\ Has(s, "dependentRequired")) =>
          \A k \in DOMAIN s.dependentRequired \cap Names(v) :
             \A i \in DOMAIN s.dependentRequired[k] : s.dependentRequired[k][i] \in Names(v)
    /\ (dr = "d7" /\ Has(s, "depStrings")) =>
          \A k \in DOMAIN s.depStrings \cap Names(v) :
             \A i \in DOMAIN s.depStrings[k] : s.depStrings[k][i] \in Names(v)

LocalOK(dr, s, v) ==
  TypeOK(s, v) /\ EnumOK(s, v) /\ NumOK(s, v) /\ StrOK(s, v) /\ ArrCountsOK(s, v) /\ ObjCountsOK(dr, s, v)

\* ---- dynamic references (2020-12 section 8.2.3.2) ----
\* resources (addresses of resource roots) of the scope that declare the
\* dynamic anchor nm
DeclaresDyn(U, dr, ra, nm) ==
  LET D == Doc(U, ra.d)
  IN {p \in ResNodes(dr, D, ra.p) : nm \in DynAnchorsOf(dr, NodeAtS(D.s, p))}

DynTarget(U, dr, a, ref, scope) ==
  LET st == Designates(U, dr, a, ref)
  IN IF st = NoTarget \/ ref.f.k # "name" THEN st
     ELSE IF ref.f.a \notin DynAnchorsOf(dr, Node(U, st)) THEN st
     ELSE LET idx == {i \in DOMAIN scope : DeclaresDyn(U, dr, scope[i], ref.f.a) # {}}
          IN IF idx = {} THEN st
             ELSE LET o  == CHOOSE i \in idx : \A j \in idx : i <= j
                      ra == scope[o]
                  IN Addr(ra.d, CHOOSE p \in DeclaresDyn(U, dr, ra, ref.f.a) : TRUE)

\* union of the annotation sets of the successful results in a set of results
PropsOf(rs) == UNION {r.props : r \in rs}
ItemsOf(rs) == UNION {r.items : r \in rs}

RECURSIVE Ev(_, _, _, _, _)
Ev(U, dr, a, v, scope) ==
  LET s  == Node(U, a)
      sc == Append(scope, ResAddr(U, dr, a))
      E(seg, w) == Ev(U, dr, Child(a, seg), w, sc)
  IN
  IF Has(s, "bool") THEN (IF s.bool THEN Pass ELSE Fail)
  ELSE IF dr = "d7" /\ Has(s, "ref") THEN
     \* draft-07 section 8.3: all other properties in a $ref object are ignored
     LET t == Designates(U, dr, a, s.ref) IN IF t = NoTarget THEN Fail ELSE Ev(U, dr, t, v, sc)
  ELSE
  LET
    \* ---------- in-place applicators ----------
    refRs == IF Has(s, "ref")
               THEN LET t == Designates(U, dr, a, s.ref) IN {IF t = NoTarget THEN Fail ELSE Ev(U, dr, t, v, sc)}
               ELSE {}
    dynRs == IF dr = "2020" /\ Has(s, "dynamicRef")
               THEN LET t == DynTarget(U, dr, a, s.dynamicRef, sc) IN {IF t = NoTarget THEN Fail ELSE Ev(U, dr, t, v, sc)}
               ELSE {}
    allRs == IF Has(s, "allOf") THEN [i \in DOMAIN s.allOf |-> E(SegI("allOf", i), v)] ELSE <<>>
    anyRs == IF Has(s, "anyOf") THEN [i \in DOMAIN s.anyOf |-> E(SegI("anyOf", i), v)] ELSE <<>>
    oneRs == IF Has(s, "oneOf") THEN [i \in DOMAIN s.oneOf |-> E(SegI("oneOf", i), v)] ELSE <<>>
    notOK == Has(s, "not") => ~E(SegK("not"), v).ok
    ifR   == IF Has(s, "if") THEN E(SegK("if"), v) ELSE Pass
    condRs == IF ~Has(s, "if") THEN {}
              ELSE IF ifR.ok
                THEN {ifR} \cup (IF Has(s, "then") THEN {E(SegK("then"), v)} ELSE {})
                ELSE (IF Has(s, "else") THEN {E(SegK("else"), v)} ELSE {})
    depKW == IF dr = "2020" THEN "dependentSchemas" ELSE "depSchemas"
    depRs == IF v.t = "obj" /\ Has(s, depKW)
               THEN {E(SegN(depKW, k), v) : k \in DOMAIN s[depKW] \cap Names(v)}
               ELSE {}
    inplaceOK ==
      /\ \A r \in refRs \cup dynRs \cup condRs \cup depRs : r.ok
      /\ \A i \in DOMAIN allRs : allRs[i].ok
      /\ Has(s, "anyOf") => \E i \in DOMAIN anyRs : anyRs[i].ok
      /\ Has(s, "oneOf") => Cardinality({i \in DOMAIN oneRs : oneRs[i].ok}) = 1
      /\ notOK
    inplace == refRs \cup dynRs \cup condRs \cup depRs
               \cup {allRs[i] : i \in DOMAIN allRs} \cup {anyRs[i] : i \in DOMAIN anyRs}
               \cup {oneRs[i] : i \in DOMAIN oneRs}
    \* ---------- array applicators ----------
    n == IF v.t = "arr" THEN Len(v.e) ELSE 0
    prefKW  == IF dr = "2020" THEN "prefixItems" ELSE "itemsArray"
    restKW  == IF dr = "2020" THEN "items" ELSE "additionalItems"
    npre    == IF Has(s, prefKW) THEN Min2(Len(s[prefKW]), n) ELSE 0
    prefOK  == \A i \in 1..npre : E(SegI(prefKW, i), v.e[i]).ok
    \* draft-07: additionalItems only counts when items is an array;
    \* a schema-valued items applies to every element
    restOn  == IF dr = "2020" THEN Has(s, "items")
               ELSE (Has(s, "itemsArray") /\ Has(s, "additionalItems")) \/ Has(s, "items")
    restSeg == IF dr = "d7" /\ Has(s, "items") THEN SegK("items") ELSE SegK(restKW)
    restFrom == IF dr = "d7" /\ Has(s, "items") THEN 1
                ELSE (IF Has(s, prefKW) THEN Len(s[prefKW]) ELSE 0) + 1
    restOK  == restOn => \A i \in restFrom..n : E(restSeg, v.e[i]).ok
    contIdx == IF v.t = "arr" /\ Has(s, "contains") THEN {i \in 1..n : E(SegK("contains"), v.e[i]).ok} ELSE {}
    minC    == IF dr = "2020" /\ Has(s, "minContains") THEN s.minContains ELSE 1
    contOK  == (v.t = "arr" /\ Has(s, "contains")) =>
                  /\ Cardinality(contIdx) >= minC
                  /\ (dr = "2020" /\ Has(s, "maxContains")) => Cardinality(contIdx) <= s.maxContains
    arrOK   == v.t = "arr" => (prefOK /\ restOK /\ contOK)
    ownItems == (1..npre) \cup (IF restOn THEN 1..n ELSE {}) \cup contIdx
    \* ---------- object applicators ----------
    nms     == IF v.t = "obj" THEN Names(v) ELSE {}
    propNm  == IF Has(s, "properties") THEN nms \cap DOMAIN s.properties ELSE {}
    patPairs == IF Has(s, "patternProperties")
                  THEN {<<pt, k>> \in (DOMAIN s.patternProperties) \X nms : Match[pt][k]} ELSE {}
    patNm   == {pr[2] : pr \in patPairs}
    addNm   == IF Has(s, "additionalProperties") THEN nms \ (propNm \cup patNm) ELSE {}
    objOK   == v.t = "obj" =>
                 /\ \A k \in propNm : E(SegN("properties", k), v.m[k]).ok
                 /\ \A pr \in patPairs : E(SegN("patternProperties", pr[1]), v.m[pr[2]]).ok
                 /\ \A k \in addNm : E(SegK("additionalProperties"), v.m[k]).ok
                 /\ Has(s, "propertyNames") => \A k \in nms : E(SegK("propertyNames"), Str(k)).ok
    ownProps == propNm \cup patNm \cup addNm
    \* ---------- unevaluated* (2020-12 section 11) ----------
    seenItems == ownItems \cup ItemsOf(inplace)
    seenProps == ownProps \cup PropsOf(inplace)
    unevI   == dr = "2020" /\ v.t = "arr" /\ Has(s, "unevaluatedItems")
    unevP   == dr = "2020" /\ v.t = "obj" /\ Has(s, "unevaluatedProperties")
    unevIOK == unevI => \A i \in (1..n) \ seenItems : E(SegK("unevaluatedItems"), v.e[i]).ok
    unevPOK == unevP => \A k \in nms \ seenProps : E(SegK("unevaluatedProperties"), v.m[k]).ok
    ok == LocalOK(dr, s, v) /\ inplaceOK /\ arrOK /\ objOK /\ unevIOK /\ unevPOK
  IN R(ok,
       IF unevP THEN nms ELSE seenProps,
       IF unevI THEN 1..n ELSE seenItems)

\* ---- the $schema switch ----
D7http   == "http://json-schema.org/draft-07/schema#"
D7https  == "https://json-schema.org/draft-07/schema#"
D2020    == "https://json-schema.org/draft/2020-12/schema"
\* The draft a universe is validated under: decided by the root's $schema alone.
\* Any other $schema value is refused: Validate fails for every instance.
DrOf(U) ==
  LET s == U.docs[1].s
  IN IF ~Has(s, "schema") THEN "2020"
     ELSE IF s.schema \in {D7http, D7https} THEN "d7"
     ELSE IF s.schema = D2020 THEN "2020"
     ELSE "refused"

\* The validity relation (what Resolved.Validate must decide).
EvTop(U, v) == IF DrOf(U) = "refused" THEN Fail ELSE Ev(U, DrOf(U), Addr(1, <<>>), v, <<>>)
Valid(U, v) == EvTop(U, v).ok
ValidAt(U, dr, a, v, scope) == Ev(U, dr, a, v, scope).ok
====
