---- MODULE URI ----
(***************************************************************************)
(* RFC 3986 reference resolution (section 5.2) over an abstract URI        *)
(* syntax.  Written from the RFC, not from net/url.                        *)
(*                                                                         *)
(* A URI or relative reference WITHOUT its fragment is a record            *)
(*   [sch, auth, abs, path, opq]                                           *)
(*   sch  : "" (no scheme) | "http" | "https" | "urn" ...                  *)
(*   auth : "" (no authority) | host name                                  *)
(*   abs  : TRUE iff the path begins with "/"                              *)
(*   path : sequence of segments ("dir/" is <<"dir", "">>, "" is <<>>)     *)
(*   opq  : opaque part of a urn ("" otherwise)                            *)
(* Fragments are kept separately (see Resolve.tla) because RFC 3986        *)
(* resolution copies the reference's fragment unchanged.                   *)
(***************************************************************************)
EXTENDS Naturals, Sequences

URI(sch, auth, abs, path) == [sch |-> sch, auth |-> auth, abs |-> abs, path |-> path, opq |-> ""]
URN(opq)                  == [sch |-> "urn", auth |-> "", abs |-> FALSE, path |-> <<>>, opq |-> opq]
EmptyURI                  == URI("", "", FALSE, <<>>)
RelRef(path)              == URI("", "", FALSE, path)      \* "a/b.json", "../x", ...
AbsPathRef(path)          == URI("", "", TRUE, path)       \* "/a/b.json"

IsAbsolute(u) == u.sch # ""
HasNoPath(u)  == u.path = <<>> /\ ~u.abs /\ u.opq = ""

ButLast(s) == IF s = <<>> THEN <<>> ELSE SubSeq(s, 1, Len(s) - 1)

\* RFC 3986 5.2.4 remove_dot_segments, on segment sequences.
RECURSIVE RD(_, _)
RD(in, out) ==
  IF in = <<>> THEN out
  ELSE LET h == Head(in)
           t == Tail(in)
       IN IF h = "."
            THEN IF t = <<>> THEN Append(out, "") ELSE RD(t, out)
          ELSE IF h = ".."
            THEN IF t = <<>> THEN Append(ButLast(out), "") ELSE RD(t, ButLast(out))
          ELSE RD(t, Append(out, h))

RemoveDots(p) == RD(p, <<>>)

\* RFC 3986 5.2.3 merge
MergedPath(B, R) ==
  IF B.auth # "" /\ B.path = <<>> /\ ~B.abs
    THEN R.path
    ELSE ButLast(B.path) \o R.path
MergedAbs(B, R) == IF B.auth # "" /\ B.path = <<>> /\ ~B.abs THEN TRUE ELSE B.abs

\* RFC 3986 5.2.2 transform references (fragment handled by the caller).
ResolveURI(B, R) ==
  IF R.sch # "" THEN
     IF R.opq # "" THEN R ELSE [R EXCEPT !.path = RemoveDots(R.path)]
  ELSE IF R.auth # "" THEN
     [sch |-> B.sch, auth |-> R.auth, abs |-> R.abs, path |-> RemoveDots(R.path), opq |-> ""]
  ELSE IF R.path = <<>> /\ ~R.abs THEN
     B
  ELSE IF R.abs THEN
     [B EXCEPT !.path = RemoveDots(R.path), !.abs = TRUE, !.opq = ""]
  ELSE
     [B EXCEPT !.path = RemoveDots(MergedPath(B, R)), !.abs = MergedAbs(B, R), !.opq = ""]

\* The combinations on which RFC 3986 is silent or on which the package
\* documents a restriction are kept out of every universe by this predicate:
\* a relative-path reference needs a hierarchical absolute base.
Resolvable(B, R) ==
  \/ R.sch # ""
  \/ (R.path = <<>> /\ ~R.abs /\ R.auth = "")
  \/ (B.sch # "" /\ B.opq = "")
====
