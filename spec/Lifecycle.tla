---- MODULE Lifecycle ----
(***************************************************************************)
(* C14: Resolve, Validate and Marshal are pure and deterministic.          *)
(*                                                                         *)
(* The API as a state machine over the objects the caller shares between   *)
(* calls: two root schemas (one draft-07, one 2020-12) that both refer to  *)
(* ONE remote document which a memoising Loader hands out as the same      *)
(* object every time.  State:                                              *)
(*   remSchema  the $schema field of the Loader's document object          *)
(*   touched    set of caller-owned objects an operation has written to    *)
(*   hist       sequence of [op, arg, res]: every call and its result      *)
(* Operations: Resolve(root), Validate(root, i), Marshal(root).            *)
(* The result of an operation must be Expected(op, arg): a function of its *)
(* inputs alone, whatever happened before (Deterministic), and no          *)
(* operation writes to a caller-owned object (Pure).                       *)
(*                                                                         *)
(* DEV_MutateLoadedDoc models resolve.go before fix 7dbee0e: Resolve wrote *)
(* the referring schema's $schema into the loaded document when it had     *)
(* none; the next Resolve of the OTHER root then read it under the wrong   *)
(* draft.  TLC must find both violations with the switch on.               *)
(***************************************************************************)
EXTENDS Eval, Sequences

CONSTANTS DEV_MutateLoadedDoc, MaxHist

VARIABLES remSchema, touched, hist
lvars == <<remSchema, touched, hist>>

IntS == [type |-> "integer"]
RootURI == URI("http", "h1", TRUE, <<"root.json">>)
RemURI  == URI("http", "h1", TRUE, <<"r.json">>)
RemRef  == Ref(RelRef(<<"r.json">>), FragNone)
\* the remote document relies on draft-07 ($id-as-anchor, siblings of $ref ignored)
RemDoc  == [definitions |-> [x |-> IntS @@ [id |-> IdFrag("foo")]], ref |-> LocalRef(FragName("foo")), maximum |-> R_0]
RootOf(r) == IF r = "A" THEN [schema |-> D7http, ref |-> RemRef]
             ELSE [properties |-> [p |-> [ref |-> RemRef]]]
Univ(r, rs) == [docs |-> <<[uri |-> RootURI, s |-> RootOf(r)],
                           [uri |-> RemURI, s |-> IF rs = "" THEN RemDoc ELSE RemDoc @@ [schema |-> rs]]>>]
Insts == <<Num(R_1), Num(R_h), Str("a"), Obj([p |-> Num(R_1)]), Obj([p |-> Str("a")])>>

\* how the remote document is read when root r is resolved and the document
\* object currently says rs
ReadAs(r, rs) == IF rs = D7http THEN "d7" ELSE IF rs = D2020 THEN "2020" ELSE DrOf(Univ(r, ""))
ResolveRes(r, rs) ==
  \* under draft 2020-12 a fragment-only $id is rejected
  IF ReadAs(r, rs) = "d7" THEN "ok" ELSE "err"
\* Expected: with the document as the Loader supplies it (no $schema)
Expected(op, r, i) ==
  CASE op = "resolve"  -> ResolveRes(r, "")
    [] op = "validate" -> IF ResolveRes(r, "") = "err" THEN "unresolved"
                          ELSE IF Ev(Univ(r, ""), DrOf(Univ(r, "")), Addr(1, <<>>), Insts[i], <<>>).ok THEN "T" ELSE "F"
    [] op = "marshal"  -> "bytes(" \o r \o ")"

Init == remSchema = "" /\ touched = {} /\ hist = <<>>

Resolve(r) ==
  /\ Len(hist) < MaxHist
  /\ hist' = Append(hist, [op |-> "resolve", r |-> r, i |-> 0, res |-> ResolveRes(r, remSchema)])
  /\ IF DEV_MutateLoadedDoc /\ remSchema = "" /\ r = "A"
       \* `ls.Schema = s.Schema`: the referring schema is the root of A, which declares draft-07
       THEN remSchema' = D7http /\ touched' = touched \cup {"loader document"}
       ELSE UNCHANGED <<remSchema, touched>>

Validate(r, i) ==
  /\ Len(hist) < MaxHist
  /\ \E k \in DOMAIN hist : hist[k].op = "resolve" /\ hist[k].r = r /\ hist[k].res = "ok"
  /\ hist' = Append(hist, [op |-> "validate", r |-> r, i |-> i, res |-> Expected("validate", r, i)])
  /\ UNCHANGED <<remSchema, touched>>

Marshal(r) ==
  /\ Len(hist) < MaxHist
  /\ hist' = Append(hist, [op |-> "marshal", r |-> r, i |-> 0, res |-> Expected("marshal", r, 0)])
  /\ UNCHANGED <<remSchema, touched>>

Next == \E r \in {"A", "B"} : Resolve(r) \/ Marshal(r) \/ \E i \in DOMAIN Insts : Validate(r, i)

Deterministic == \A k \in DOMAIN hist : hist[k].res = Expected(hist[k].op, hist[k].r, hist[k].i)
Pure == touched = {}
====
