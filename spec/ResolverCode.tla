---- MODULE ResolverCode ----
(***************************************************************************)
(* L1: the resolver of resolve.go as a small-step machine.                 *)
(*                                                                         *)
(*   Start       Schema.Resolve -> resolver.resolve(root): check,          *)
(*               resolveURIs, cache-set under retrieval and canonical URI  *)
(*               (BEFORE the references are followed), push an activation  *)
(*   PickRef     resolveRefs takes the next reference of the activation on *)
(*               top (any order: the code walks in document order; the     *)
(*               model proves the result independent of that order)        *)
(*     LocalHit    the URI names a resource of the referring document      *)
(*     CacheHit    the URI is in resolver.loaded                           *)
(*     Load        otherwise: one Loader call (may fault), then resolve()  *)
(*                 of the loaded document = push a new activation          *)
(*   Return      an activation with no references left pops; its infos are *)
(*               merged into the activation below (the "copy the           *)
(*               resolvedInfos" loop) and the waiting reference completes  *)
(*   fragment lookup: "" -> resource root; "/..." -> JSON Pointer walk;    *)
(*               otherwise the anchors table of the resource root, read    *)
(*               through the REFERRING document's resolvedInfos            *)
(*                                                                         *)
(* Named deviation switches (each must make TLC find a counterexample):    *)
(*   DEV_CacheHitNoInfoMerge  the cache-hit path does not merge infos (the *)
(*                            code before fix a47e351): anchor lookup in a *)
(*                            cached document dereferences nil -> panic    *)
(*   MUT_CacheAfterRefs       cache-set after following the references:    *)
(*                            reference cycles never terminate / reload    *)
(***************************************************************************)
EXTENDS Resolve

CONSTANTS DEV_CacheHitNoInfoMerge, MUT_CacheAfterRefs

\* Further seeded mutations (MUT_Resolver = "none": the code as it is; the others must be refuted by TLC):
\*   "pointerMemo"  JSON-Pointer fragments are memoised per target DOCUMENT by their text - although a pointer
\*                  is evaluated against the RESOURCE the rest of the URI selects
CONSTANT MUT_Resolver
\* CheckKnown = FALSE: universes that show the known finding KF-crossdoc-C03 (a Loader document referring to a resource
\* embedded in the root: the machine below, like the code, asks the Loader for it) are exempt from RefinesResolve;
\* with TRUE TLC must report them (selftest)
CONSTANT CheckKnown

VARIABLES U,        \* the universe (constant along a behaviour)
          dr,       \* its draft
          faults,   \* set of URIs on which the Loader returns an error
          loaded,   \* resolver.loaded: set of <<URI, doc id>>
          calls,    \* sequence of URIs the Loader was called with
          acts,     \* stack of activations of resolver.resolve
          infos,    \* doc id -> set of doc ids whose infos are in its resolvedInfos
          targets,  \* set of [a, kind, t]: resolved references
          status    \* "init" | "run" | "ok" | "err" | "panic"

rvars == <<U, dr, faults, loaded, calls, acts, infos, targets, status>>

RefRec(p, kind, ref) == [p |-> p, kind |-> kind, ref |-> ref]
AllRefs(d) ==
  LET S == U.docs[d].s
  IN {RefRec(p, "ref", NodeAtS(S, p).ref) : p \in {q \in AllPaths(S) : "ref" \in DOMAIN NodeAtS(S, q)}}
     \cup {RefRec(p, "dyn", NodeAtS(S, p).dynamicRef) : p \in {q \in AllPaths(S) : "dynamicRef" \in DOMAIN NodeAtS(S, q)}}

Canon(d) == BaseAt(dr, U.docs[d], <<>>)
CacheKeys(d) == {<<U.docs[d].uri, d>>, <<Canon(d), d>>}
Activation(d) == [d |-> d, todo |-> AllRefs(d), wait |-> <<>>]

Top == acts[Len(acts)]
SetTop(a) == [acts EXCEPT ![Len(acts)] = a]

\* completing a reference once the resource (address res) is known
FragResult(A, r, res, inf) ==
  LET D == Doc(U, res.d)
  IN CASE r.ref.f.k = "none" -> [st |-> "ok", t |-> res]
       [] r.ref.f.k = "ptr" ->
            LET RefOf(t) == Node(U, t.a)[IF t.kind = "ref" THEN "ref" ELSE "dynamicRef"]
                memo == {t \in targets : t.t.d = res.d /\ RefOf(t).f.k = "ptr" /\ RefOf(t).f.p = r.ref.f.p /\ r.ref.f.p # <<>>}
            IN IF MUT_Resolver = "pointerMemo" /\ memo # {} THEN [st |-> "ok", t |-> (CHOOSE t \in memo : TRUE).t]
               ELSE IF HasPath(NodeAtS(D.s, res.p), r.ref.f.p) THEN [st |-> "ok", t |-> Addr(res.d, res.p \o r.ref.f.p)]
               ELSE [st |-> "err"]
       [] r.ref.f.k = "name" ->
            IF res.d \notin inf[A.d] THEN [st |-> "panic"]       \* rs.resolvedInfos[referencedSchema] is nil
            ELSE LET c == {p \in ResNodes(dr, D, res.p) : r.ref.f.a \in AnchorsOf(dr, NodeAtS(D.s, p))}
                 IN IF c = {} THEN [st |-> "err"] ELSE [st |-> "ok", t |-> Addr(res.d, CHOOSE p \in c : TRUE)]

Finish(A, r, res, inf, newActs) ==
  LET fr == FragResult(A, r, res, inf)
  IN /\ infos' = inf
     /\ IF fr.st = "ok"
          THEN /\ targets' = targets \cup {[a |-> Addr(A.d, r.p), kind |-> r.kind, t |-> fr.t]}
               /\ acts' = newActs
               /\ status' = status
          ELSE /\ status' = fr.st
               /\ UNCHANGED <<targets, acts>>

Init ==
  /\ status = "init"
  /\ loaded = {} /\ calls = <<>> /\ acts = <<>> /\ targets = {}
  /\ infos = [d \in DocIds(U) |-> {}]

Start ==
  /\ status = "init"
  /\ status' = "run"
  /\ loaded' = IF MUT_CacheAfterRefs THEN loaded ELSE CacheKeys(1)
  /\ acts' = <<Activation(1)>>
  /\ infos' = [infos EXCEPT ![1] = {1}]
  /\ UNCHANGED <<U, dr, faults, calls, targets>>

PickRef ==
  /\ status = "run" /\ acts # <<>> /\ Top.wait = <<>> /\ Top.todo # {}
  /\ \E r \in Top.todo :
       LET A   == Top
           u   == RefURI(U, dr, Addr(A.d, r.p), r.ref)
           loc == LocalRes(U, dr, A.d, u)
           hit == {pr \in loaded : pr[1] = u}
           A2  == [A EXCEPT !.todo = @ \ {r}]
       IN IF loc # {} THEN                                            \* LocalHit
            /\ Finish(A, r, Addr(A.d, CHOOSE q \in loc : TRUE), infos, SetTop(A2))
            /\ UNCHANGED <<loaded, calls>>
          ELSE IF hit # {} THEN                                       \* CacheHit
            LET e   == (CHOOSE pr \in hit : TRUE)[2]
                inf == IF DEV_CacheHitNoInfoMerge THEN infos ELSE [infos EXCEPT ![A.d] = @ \cup infos[e]]
            IN /\ Finish(A, r, Addr(e, <<>>), inf, SetTop(A2))
               /\ UNCHANGED <<loaded, calls>>
          ELSE                                                        \* Load
            LET ds == {e \in DocIds(U) : e # 1 /\ U.docs[e].uri = u}
            IN /\ calls' = Append(calls, u)
               /\ IF u \in faults \/ ds = {}
                    THEN /\ status' = "err"
                         /\ UNCHANGED <<loaded, acts, infos, targets>>
                    ELSE LET e == CHOOSE x \in ds : TRUE
                         IN /\ loaded' = IF MUT_CacheAfterRefs THEN loaded ELSE loaded \cup {<<u, e>>, <<Canon(e), e>>}
                            /\ infos' = [infos EXCEPT ![e] = @ \cup {e}]
                            /\ acts' = Append(SetTop([A2 EXCEPT !.wait = <<r, e>>]), Activation(e))
                            /\ UNCHANGED <<targets, status>>
  /\ UNCHANGED <<U, dr, faults>>

Return ==
  /\ status = "run" /\ acts # <<>> /\ Top.todo = {} /\ Top.wait = <<>>
  /\ IF Len(acts) = 1
       THEN /\ status' = "ok" /\ acts' = <<>>
            /\ loaded' = IF MUT_CacheAfterRefs THEN loaded \cup CacheKeys(1) ELSE loaded
            /\ UNCHANGED <<infos, targets>>
       ELSE LET below == acts[Len(acts) - 1]
                r     == below.wait[1]
                e     == below.wait[2]
                inf   == [infos EXCEPT ![below.d] = @ \cup infos[e]]
                rest  == SubSeq(acts, 1, Len(acts) - 2) \o <<[below EXCEPT !.wait = <<>>]>>
            IN /\ Finish(below, r, Addr(e, <<>>), inf, rest)
               /\ loaded' = IF MUT_CacheAfterRefs THEN loaded \cup CacheKeys(e) ELSE loaded
  /\ UNCHANGED <<U, dr, faults, calls>>

Next == Start \/ PickRef \/ Return

\* ---------------------------------------------------------------- properties
NoPanic == status # "panic"

\* each distinct URI is requested from the Loader at most once
AtMostOnce == \A i, j \in DOMAIN calls : i # j => calls[i] # calls[j]

\* the Loader is never asked for something the resolver already holds:
\* the root document under either of its names
NeverLoadsKnown == \A i \in DOMAIN calls : calls[i] \notin {U.docs[1].uri, Canon(1)}

\* bounded stack: resolve() is never re-entered for a document being resolved
NoReentry == \A i, j \in DOMAIN acts : i # j => acts[i].d # acts[j].d

\* L0: Resolve succeeds iff every reference of every needed document designates
\* a subschema and no needed document is unavailable
NeedFault == \E d \in NeededDocs(U, dr) \ {1} : U.docs[d].uri \in faults
L0ok == ResolveOK(U, dr) /\ ~NeedFault

\* refinement at termination
RefinesResolve ==
  (CheckKnown \/ ~HasCrossEmb(U, dr)) =>
  /\ status = "ok"  => /\ L0ok
                       /\ \A t \in targets :
                            t.t = Designates(U, dr, t.a, Node(U, t.a)[IF t.kind = "ref" THEN "ref" ELSE "dynamicRef"])
                       /\ {U.docs[d].uri : d \in NeededDocs(U, dr) \ {1}} = {calls[i] : i \in DOMAIN calls}
  /\ status = "err" => ~L0ok

Terminates == <>(status \in {"ok", "err", "panic"})
====
