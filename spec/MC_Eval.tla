---- MODULE MC_Eval ----
(***************************************************************************)
(* Model-checking harness for the evaluator (C01, C02, C07, ...).          *)
(*                                                                         *)
(* A case is a universe U (Resolve.tla) under draft Dr; the instance pool  *)
(* depends on the family.  For every case TLC                              *)
(*   - computes the verdict vector with the specification-shaped L0        *)
(*     evaluator Eval!Ev,                                                  *)
(*   - checks (invariant Refines) that the code-shaped L1 evaluator        *)
(*     EvalCode!Cv returns the same verdicts and that its compressed       *)
(*     annotation record denotes exactly L0's annotation sets,             *)
(*   - prints one CASE line, which the Go harness replays through          *)
(*     json.Unmarshal -> Resolve -> Validate on the real code.             *)
(*                                                                         *)
(* Families (CONSTANT Family), K = max number of combined keywords:        *)
(*   F1 scalars   F2 arrays   F3 objects   F4 in-place applicators         *)
(*   F5 $ref/$defs/$anchor incl. recursive schemas                         *)
(*   U1 unevaluatedProperties   U2 unevaluatedItems                        *)
(*   G1 draft-07 arrays  G2 draft-07 dependencies  G3 draft-07 $ref/$id    *)
(***************************************************************************)
EXTENDS EvalCode, Json, SequencesExt

CONSTANTS Family, K, Dr

VARIABLES cs, phase, res

vars == <<cs, phase, res>>

Single(s) == [docs |-> <<[uri |-> EmptyURI, s |-> s]>>]
Root == Addr(1, <<>>)

\* ------------------------------------------------------------ combinators
Disjoint(a, b) == /\ DOMAIN a \cap DOMAIN b = {}
                  /\ ~({"type", "types"} \subseteq (DOMAIN a \cup DOMAIN b))
Pairs(A)   == {x[1] @@ x[2] : x \in {y \in A \X A : Disjoint(y[1], y[2])}}
Triples(A) == {x[1] @@ x[2] : x \in {y \in Pairs(A) \X A : Disjoint(y[1], y[2])}}
\* UNION (not \cup): TLC's binary union is quadratic on large enumerated sets
UpTo(A) == IF K = 1 THEN A ELSE IF K = 2 THEN UNION {A, Pairs(A)} ELSE UNION {A, Pairs(A), Triples(A)}
\* all sequences over S of length lo..hi
SeqsOf(S, lo, hi) == UNION {[1..n -> S] : n \in lo..hi}
\* all functions from a subset of keys (size lo..hi) to S
MapsOf(Keys, S, lo, hi) == UNION {[ks -> S] : ks \in {x \in SUBSET Keys : Cardinality(x) >= lo /\ Cardinality(x) <= hi}}

\* ------------------------------------------------------------ F1 scalars
NumOps  == {R_m1, R_0, R_h, R_1, R_2, R_128, R_i32max, R_2p53}
ScalarVals ==
  {Null, Bool(TRUE), Bool(FALSE)}
  \cup {Num(r) : r \in {R_m129, R_m128, R_m2, R_m1h, R_m1, R_mh, R_0, R_q, R_h, R_1, R_1h, R_2, R_2h, R_3, R_4,
                        R_127, R_128, R_255, R_i32max, R_i32max1, R_2p53m1, R_2p53, R_2p63, R_p3, R_p1p2,
                        R_1ulp, R_2p51h, R_4ulp}}        \* (one unit in the last place beside a multiple of 1, 1/2, 2)
  \cup {Str(x) : x \in {"", "a", "b", "ab", "abc", "aXc", "U_e1", "U_e2", "U_g1", "U_ae"}}
F1Atoms ==
  {[type |-> t] : t \in TypeNames}
  \cup {[types |-> ts] : ts \in {<<>>, <<"integer", "string">>, <<"null", "number">>, <<"boolean", "integer">>}}
  \cup {[enum |-> e] : e \in {<<>>, <<Num(R_1)>>, <<Null, Str("a")>>, <<Num(R_2), Str(""), Bool(FALSE)>>, <<Str("U_e1"), Num(R_h)>>}}
  \cup {[const |-> c] : c \in {Null, Num(R_0), Num(R_2p53), Str("U_e2"), Bool(TRUE), Str("")}}
  \cup {[multipleOf |-> r] : r \in {R_q, R_h, R_1, R_1h, R_2, R_3}}
  \cup {[not |-> [multipleOf |-> R_1]], [oneOf |-> <<[multipleOf |-> R_h], [minimum |-> R_1]>>]}
  \cup {[minimum |-> r] : r \in NumOps} \cup {[maximum |-> r] : r \in NumOps}
  \cup {[exclusiveMinimum |-> r] : r \in NumOps} \cup {[exclusiveMaximum |-> r] : r \in NumOps}
  \cup {[minLength |-> k] : k \in 0..3} \cup {[maxLength |-> k] : k \in 0..3}
  \cup {[pattern |-> p] : p \in {"^a", "b$", "a.c", "^[ab]+$", "U_e1", "^.$", "^..$"}}
F1Schemas(z) == UpTo(F1Atoms)

\* ------------------------------------------------------------ F2 arrays
IntS == [type |-> "integer"]
StrS == [type |-> "string"]
L2 == {TrueS, FalseS, IntS, [minimum |-> R_2]}
L2s == {IntS, StrS, [const |-> Num(R_1)]}
ArrLeaf == {Num(R_1), Num(R_3), Str("a")}
ArrVals == {Arr(e) : e \in SeqsOf(ArrLeaf, 0, 3)} \cup {Arr(<<Num(R_1), Num(R_1), Num(R_3), Num(R_1)>>), Num(R_1), EmptyObj}
F2Atoms ==
  {[prefixItems |-> p] : p \in SeqsOf(L2s, 0, 2)}
  \cup {[items |-> l] : l \in L2}
  \cup {[contains |-> l] : l \in {IntS, [const |-> Num(R_1)], FalseS, TrueS}}
  \cup {[minContains |-> k] : k \in 0..2} \cup {[maxContains |-> k] : k \in 0..2}
  \cup {[minItems |-> k] : k \in 0..3} \cup {[maxItems |-> k] : k \in 0..3}
  \cup {[uniqueItems |-> b] : b \in BOOLEAN}
  \cup {[unevaluatedItems |-> l] : l \in {FalseS, StrS}}
  \cup {[type |-> "array"]}
F2Schemas(z) == UpTo(F2Atoms)

\* ------------------------------------------------------------ F3 objects
L3 == {TrueS, FalseS, IntS}
ObjNames == {"a", "b", "ab", "c"}
ObjLeaf == {Num(R_1), Str("a")}
ObjVals == {Obj(m) : m \in MapsOf(ObjNames, ObjLeaf, 0, 4)} \cup {Num(R_1), EmptyArr, Obj([a |-> EmptyObj]), Obj([a |-> Obj([b |-> Num(R_1)])])}
F3Atoms ==
  {[properties |-> m] : m \in MapsOf({"a", "b"}, L3, 0, 2)}
  \cup {[patternProperties |-> m] : m \in MapsOf({"^a", "b$"}, {IntS, FalseS}, 1, 2)}
  \cup {[additionalProperties |-> l] : l \in L3 \cup {[not |-> TrueS]}}
  \cup {[propertyNames |-> l] : l \in {[maxLength |-> 1], [pattern |-> "^a"], FalseS, [const |-> Str("a")]}}
  \cup {[minProperties |-> k] : k \in 0..2} \cup {[maxProperties |-> k] : k \in 0..2}
  \* (name lists that are in no sorted order, also below the root: the lists are the caller's, in the caller's order)
  \cup {[required |-> r] : r \in {<<>>, <<"a">>, <<"a", "b">>, <<"c">>, <<"c", "a">>, <<"a", "b", "a">>}}     \* (a name may repeat)
  \cup {[properties |-> [a |-> [required |-> <<"b", "a">>]]]}
  \cup {[dependentRequired |-> d] : d \in {[a |-> <<"b">>], [a |-> <<>>], [c |-> <<"a">>, a |-> <<"ab">>], [a |-> <<"c", "ab">>]}}
  \cup {[dependentSchemas |-> d] : d \in {[a |-> [required |-> <<"b">>]], [a |-> FalseS],
                                          [b |-> [properties |-> [a |-> IntS]]]}}
  \cup {[unevaluatedProperties |-> l] : l \in {FalseS, IntS}}
  \cup {[type |-> "object"]}
F3Schemas(z) == UpTo(F3Atoms)

\* ------------------------------------------------------------ F4 logic
L4 == {TrueS, FalseS, IntS, StrS, [minimum |-> R_2], [maxLength |-> 1], [const |-> Num(R_1)], [required |-> <<"a">>]}
L4s == {IntS, [minimum |-> R_2], [const |-> Num(R_1)], FalseS}
LogicVals == {Null, Num(R_1), Num(R_3), Num(R_h), Str("a"), Str("ab"), Obj([a |-> Num(R_1)]), EmptyObj, Arr(<<Num(R_1)>>)}
Logic1(L, Ls) ==
  {[allOf |-> q] : q \in SeqsOf(Ls, 0, 2)} \cup {[anyOf |-> q] : q \in SeqsOf(Ls, 0, 2)}
  \cup {[oneOf |-> q] : q \in SeqsOf(Ls, 0, 2)} \cup {[oneOf |-> <<a, a, b>>] : a \in Ls, b \in Ls}
  \cup {[not |-> l] : l \in L}
  \cup {[if |-> l] : l \in Ls} \cup {[then |-> l] : l \in Ls} \cup {[else |-> l] : l \in Ls}
F4Atoms(z) == Logic1(L4, L4s)
\* depth 2: applicators over depth-1 applicator schemas and leaves
L4d == {[allOf |-> <<IntS, [minimum |-> R_2]>>], [anyOf |-> <<StrS, [const |-> Num(R_1)]>>],
        [oneOf |-> <<IntS, [minimum |-> R_2]>>], [not |-> IntS], [if |-> IntS, then |-> [minimum |-> R_2]],
        [if |-> StrS, else |-> FalseS], IntS, FalseS}
F4Schemas(z) == UNION {UpTo(F4Atoms(0)), UpTo(Logic1(L4d, L4d))}

\* ------------------------------------------------------------ F5 references
\* documents with $defs / $anchor and every local reference form, incl. recursion
DefPool == {IntS, StrS, FalseS, [minimum |-> R_2]}
PtrDefs(nm) == FragPtr(<<SegN("defs", nm)>>)
ListNode(refr) == [type |-> "object", properties |-> [v |-> IntS, next |-> [ref |-> refr]], additionalProperties |-> FalseS]
TreeNode(refr) == [type |-> "array", items |-> [anyOf |-> <<IntS, [ref |-> refr]>>]]
F5Docs(z) ==
  \* ref to a def by pointer, with and without sibling keywords (2020: both apply)
  {[defs |-> [x |-> d], ref |-> LocalRef(PtrDefs("x"))] : d \in DefPool}
  \cup {[defs |-> [x |-> d], ref |-> LocalRef(PtrDefs("x"))] @@ sib : d \in DefPool, sib \in {[maximum |-> R_3], [type |-> "number"]}}
  \* ref by anchor
  \cup {[defs |-> [x |-> d @@ [anchor |-> "a"]], ref |-> LocalRef(FragName("a"))] : d \in DefPool \ {FalseS}}
  \* ref to root ("#") from a property: recursion through properties
  \cup {[type |-> "object", properties |-> [next |-> [ref |-> LocalRef(FragNone)], v |-> d]] : d \in DefPool}
  \* key names that need escaping in the pointer
  \cup {[defs |-> (k :> d), ref |-> LocalRef(PtrDefs(k))] : k \in {"a/b", "a~b", "%25", " ", "U_e1", ""}, d \in {IntS}}
  \* chain of refs and ref into a nested def / array keyword
  \cup {[defs |-> [x |-> [ref |-> LocalRef(PtrDefs("y"))], y |-> d], ref |-> LocalRef(PtrDefs("x"))] : d \in DefPool}
  \cup {[allOf |-> <<TrueS, d>>, properties |-> [p |-> [ref |-> LocalRef(FragPtr(<<SegI("allOf", 2)>>))]]] : d \in DefPool}
  \* recursive list and tree
  \cup {[defs |-> [node |-> ListNode(LocalRef(PtrDefs("node")))], ref |-> LocalRef(PtrDefs("node"))]}
  \cup {[defs |-> [node |-> ListNode(LocalRef(FragName("n"))) @@ [anchor |-> "n"]], ref |-> LocalRef(FragName("n"))]}
  \cup {[defs |-> [t |-> TreeNode(LocalRef(PtrDefs("t")))], ref |-> LocalRef(PtrDefs("t"))]}
  \cup {TreeNode(LocalRef(FragNone))}
  \* one schema object applied at two depths of ONE instance at once (two recursive properties; a recursive property
  \* next to additionalProperties / unevaluatedProperties): what a frame has noted so far is its own
  \cup {[properties |-> [p |-> [ref |-> LocalRef(FragNone)], q |-> [ref |-> LocalRef(FragNone)]], additionalProperties |-> FalseS],
        [properties |-> [p |-> [ref |-> LocalRef(FragNone)]], additionalProperties |-> [type |-> "object"]],
        [defs |-> [n |-> [anchor |-> "n", properties |-> [p |-> [ref |-> LocalRef(FragName("n"))], q |-> [ref |-> LocalRef(FragName("n"))]],
                          unevaluatedProperties |-> FalseS]], ref |-> LocalRef(FragName("n"))]}
  \* the SAME reference text ("#/$defs/v", "#e", "#") inside two embedded resources: a relative reference is resolved
  \* against the base of the resource it stands in, so equal texts name different subschemas
  \cup {[defs |-> [cnt |-> [id |-> IdOf(URI("http", "h1", TRUE, <<"cnt.json">>)), defs |-> [v |-> d1 @@ [anchor |-> "e"]], ref |-> rf],
                    nam |-> [id |-> IdOf(URI("http", "h1", TRUE, <<"nam.json">>)), defs |-> [v |-> d2 @@ [anchor |-> "e"]], ref |-> rf]],
          properties |-> [p |-> [ref |-> Ref(URI("http", "h1", TRUE, <<"cnt.json">>), FragNone)], q |-> [ref |-> Ref(URI("http", "h1", TRUE, <<"nam.json">>), FragNone)]]] :
            d1 \in {IntS}, d2 \in {StrS, [minimum |-> R_2]}, rf \in {LocalRef(PtrDefs("v")), LocalRef(FragName("e"))}}
  \cup {[defs |-> [cnt |-> [id |-> IdOf(URI("http", "h1", TRUE, <<"cnt.json">>)), type |-> "object", properties |-> [p |-> IntS, q |-> [ref |-> LocalRef(FragNone)]]],
                    nam |-> [id |-> IdOf(URI("http", "h1", TRUE, <<"nam.json">>)), type |-> "object", properties |-> [p |-> StrS, q |-> [ref |-> LocalRef(FragNone)]]]],
          properties |-> [p |-> [ref |-> Ref(URI("http", "h1", TRUE, <<"cnt.json">>), FragNone)], q |-> [ref |-> Ref(URI("http", "h1", TRUE, <<"nam.json">>), FragNone)]]]}
RECURSIVE ListVal(_, _)
ListVal(n, last) == IF n = 0 THEN last ELSE Obj([v |-> Num(R_1), next |-> ListVal(n - 1, last)])
F5Vals ==
  {Null, Num(R_1), Num(R_3), Num(R_h), Str("a"), EmptyObj, EmptyArr}
  \cup {ListVal(n, l) : n \in 1..3, l \in {Obj([v |-> Num(R_1)]), Obj([v |-> Str("a")]), Obj([w |-> Num(R_1)]), Num(R_1)}}
  \cup {Obj([p |-> x]) : x \in {Num(R_1), Num(R_3), Str("a")}}
  \cup {Obj([p |-> x, q |-> y]) : x \in {Num(R_1), Str("a")}, y \in {Num(R_1), Num(R_3), Str("a")}}
  \cup {Obj([p |-> EmptyObj, q |-> EmptyObj]), Obj([p |-> Obj([q |-> EmptyObj]), q |-> EmptyObj]), Obj([p |-> Obj([zz |-> EmptyObj]), zz |-> Num(R_1)]),
        Obj([p |-> Obj([zz |-> EmptyObj]), zz |-> EmptyObj]), Obj([p |-> Obj([p |-> EmptyObj, q |-> EmptyObj]), q |-> Obj([zz |-> Num(R_1)])])}
  \cup {Obj([p |-> Obj([p |-> x, q |-> Obj([p |-> y])]), q |-> Obj([p |-> w])]) : x \in {Num(R_1), Str("a")}, y \in {Num(R_1), Str("a")}, w \in {Num(R_1), Str("a")}}
  \cup {Arr(<<Num(R_1), Arr(<<Num(R_3), Arr(<<x>>)>>)>>) : x \in {Num(R_1), Str("a"), EmptyArr}}
  \cup {Arr(<<x>>) : x \in {Num(R_1), Str("a")}}

\* ------------------------------------------------------------ U1 unevaluatedProperties
\* Subschemas that evaluate property names, succeed or fail depending on the instance.
PA == [properties |-> [a |-> IntS]]
PB == [properties |-> [b |-> IntS]]
EvalSubs ==
  {PA, PB, [patternProperties |-> ("^a" :> TrueS)], [additionalProperties |-> IntS],
   [required |-> <<"a">>] @@ PA,                      \* fails without a: its annotations must not count
   [properties |-> [a |-> IntS, b |-> FalseS]],        \* records a then fails on b
   [unevaluatedProperties |-> IntS], TrueS, FalseS}
U1Inplace(z) ==
  {[allOf |-> q] : q \in SeqsOf(EvalSubs, 1, 2)} \cup {[anyOf |-> q] : q \in SeqsOf(EvalSubs, 1, 2)}
  \cup {[oneOf |-> q] : q \in SeqsOf(EvalSubs, 1, 2)}
  \cup {[not |-> e] : e \in EvalSubs}
  \cup {[if |-> e] : e \in EvalSubs} \cup {[if |-> e, then |-> f] : e \in {PA, [required |-> <<"a">>] @@ PA}, f \in {PB, TrueS}}
  \cup {[if |-> e, else |-> f] : e \in {[required |-> <<"a">>] @@ PA}, f \in {PB, PA}}
  \cup {[dependentSchemas |-> [a |-> e]] : e \in EvalSubs}
  \cup {[defs |-> [x |-> e], ref |-> LocalRef(PtrDefs("x"))] : e \in EvalSubs}
  \cup {[properties |-> m] : m \in {[a |-> TrueS], [b |-> IntS], [a |-> [properties |-> [b |-> TrueS]]]}}
  \cup {[patternProperties |-> ("b$" :> TrueS)]}
  \cup {[additionalProperties |-> IntS]}
ChildPSubs == {[additionalProperties |-> TrueS], [unevaluatedProperties |-> TrueS], [properties |-> [b |-> TrueS, c |-> TrueS]],
               [patternProperties |-> ("^" :> TrueS)], [type |-> "object"]}
U1Child == {[properties |-> [a |-> c]] : c \in ChildPSubs} \cup {[additionalProperties |-> c] : c \in ChildPSubs}
           \cup {[patternProperties |-> ("^a" :> c)] : c \in ChildPSubs} \cup {[allOf |-> <<[properties |-> [a |-> c]]>>] : c \in ChildPSubs}
           \cup {[propertyNames |-> [maxLength |-> 3]], [dependentSchemas |-> [a |-> [properties |-> [a |-> [properties |-> [b |-> TrueS]]]]]]}
UnevP == {[unevaluatedProperties |-> FalseS], [unevaluatedProperties |-> StrS]}
U1Nested(z) == {[allOf |-> <<[anyOf |-> <<e, f>>]>>] : e \in {PA, [required |-> <<"a">>] @@ PA, FalseS}, f \in {PB, [unevaluatedProperties |-> IntS]}}
            \cup {[anyOf |-> <<[allOf |-> <<PA, FalseS>>], PB>>], [oneOf |-> <<[not |-> PA], PB>>],
                  [allOf |-> <<[properties |-> [a |-> [properties |-> [b |-> TrueS]]]]>>],
                  [allOf |-> <<[unevaluatedProperties |-> FalseS] @@ PA>>]}
\* the keyword BELOW the root, beside a $ref that leaves its subtree: the scope of unevaluated* is dynamic (what
\* the referenced schema evaluates through its own in-place applicators counts), not lexical
U1DeepBases == {PB, [allOf |-> <<PB>>], [anyOf |-> <<PB, PA>>], [oneOf |-> <<PB>>], [if |-> PB, then |-> TrueS], [dependentSchemas |-> [b |-> PB]],
                [defs |-> [y |-> PB], ref |-> LocalRef(FragPtr(<<SegN("defs", "base"), SegN("defs", "y")>>))],
                [allOf |-> <<[anyOf |-> <<PB>>]>>]}
U1Deep == UNION {{[defs |-> [base |-> b], properties |-> [a |-> [ref |-> LocalRef(PtrDefs("base"))] @@ u]],
                  [defs |-> [base |-> b], allOf |-> <<[ref |-> LocalRef(PtrDefs("base"))] @@ u>>],
                  [defs |-> [base |-> b], additionalProperties |-> [ref |-> LocalRef(PtrDefs("base"))] @@ u],
                  [defs |-> [base |-> b, mid |-> [ref |-> LocalRef(PtrDefs("base"))] @@ u], properties |-> [a |-> [ref |-> LocalRef(PtrDefs("mid"))]]]}
                 : u \in UnevP, b \in U1DeepBases}
\* one definition reached by $ref TWICE for the same instance (cousins, or a first use inside a branch that then
\* fails): every application hands ITS annotations to ITS referring schema
U1Twice == UNION {{[defs |-> [base |-> b], allOf |-> <<[ref |-> LocalRef(PtrDefs("base"))] @@ u, [ref |-> LocalRef(PtrDefs("base"))] @@ u>>],
                   [defs |-> [base |-> b], anyOf |-> <<[ref |-> LocalRef(PtrDefs("base")), required |-> <<"zz">>], [ref |-> LocalRef(PtrDefs("base"))]>>] @@ u,
                   [defs |-> [base |-> b], allOf |-> <<[ref |-> LocalRef(PtrDefs("base"))]>>, ref |-> LocalRef(PtrDefs("base"))] @@ u,
                   [defs |-> [base |-> b], if |-> [ref |-> LocalRef(PtrDefs("base"))], then |-> [ref |-> LocalRef(PtrDefs("base"))] @@ u]}
                  : u \in UnevP, b \in {PA, PB, [allOf |-> <<PA, PB>>], [properties |-> [a |-> TrueS, b |-> TrueS]]}}
\* "at any nesting depth": every in-place applicator directly inside every in-place applicator (incl. an `if`
\* that has neither then nor else - it never fails, but what it evaluates counts when it holds)
InWrap(w, e) ==
  CASE w = "allOf" -> [allOf |-> <<e>>] [] w = "anyOf" -> [anyOf |-> <<e>>] [] w = "oneOf" -> [oneOf |-> <<e>>]
    [] w = "if" -> [if |-> e] [] w = "ifthen" -> [if |-> TrueS, then |-> e] [] w = "ifelse" -> [if |-> FalseS, else |-> e]
    [] w = "dep" -> [dependentSchemas |-> [a |-> e]]
InWraps == {"allOf", "anyOf", "oneOf", "if", "ifthen", "ifelse"}
U1Nest2 == {InWrap(w1, InWrap(w2, e)) : w1 \in InWraps \cup {"dep"}, w2 \in InWraps \cup {"dep"},
                                        e \in {PA, PB, [required |-> <<"a">>] @@ PA, [patternProperties |-> ("^a" :> TrueS)]}}
           \cup {[defs |-> [x |-> InWrap(w2, e)], if |-> [ref |-> LocalRef(PtrDefs("x"))]] : w2 \in InWraps, e \in {PA, PB}}
           \cup {[defs |-> [x |-> e], if |-> [ref |-> LocalRef(PtrDefs("x"))]] : e \in {PA, PB, [required |-> <<"a">>] @@ PA}}
\* the keyword applied to SEVERAL unevaluated properties, the first of which is an object whose own validation runs
\* unevaluatedProperties over several members again (re-entrant: each application has its own set of pending names)
EntryS == [types |-> <<"object", "integer">>, unevaluatedProperties |-> IntS]
U1Reentrant == {[properties |-> [c |-> TrueS], unevaluatedProperties |-> EntryS],
                [defs |-> [e |-> EntryS], properties |-> [c |-> TrueS], unevaluatedProperties |-> [ref |-> LocalRef(PtrDefs("e"))]],
                [defs |-> [e |-> [types |-> <<"object", "integer">>, unevaluatedProperties |-> [ref |-> LocalRef(PtrDefs("e"))]]],
                 unevaluatedProperties |-> [ref |-> LocalRef(PtrDefs("e"))]],
                [unevaluatedProperties |-> [anyOf |-> <<EntryS, StrS>>]]}
\* array keywords NEXT TO in-place applicators that evaluate properties (and the reverse in U2): what an applicator
\* reports about properties does not depend on the schema also constraining items
U1Mixed == {[items |-> IntS, allOf |-> <<PA>>], [items |-> IntS, anyOf |-> <<PA, PB>>], [items |-> IntS, defs |-> [x |-> PA], ref |-> LocalRef(PtrDefs("x"))],
            [prefixItems |-> <<IntS>>, oneOf |-> <<PA>>], [contains |-> IntS, if |-> PA, then |-> PB], [items |-> FalseS, if |-> PA, else |-> PB],
            [properties |-> [c |-> [items |-> IntS, if |-> PA, then |-> PB]]]}
U1Schemas(z) == {u @@ x : u \in UnevP, x \in U1Mixed} \cup U1Deep \cup U1Twice \cup U1Reentrant \cup {u @@ x : u \in UnevP, x \in U1Nest2} \cup {u @@ x : u \in UnevP, x \in IF K >= 2 THEN UNION {U1Inplace(0), Pairs(U1Inplace(0)), U1Nested(0), U1Child} ELSE UNION {U1Inplace(0), U1Nested(0), U1Child}}
U1Vals == {Obj(m) : m \in MapsOf({"a", "b", "c"}, {Num(R_1), Str("a")}, 0, 3)}
          \cup {Obj([a |-> Obj([b |-> Num(R_1), c |-> Num(R_1)]), b |-> Num(R_1)]), Num(R_1)}
          \cup {Obj([a |-> x]) : x \in {Obj([b |-> Num(R_1)]), Obj([b |-> Str("a")]), EmptyObj, Obj([c |-> Num(R_1)]), Obj([b |-> Num(R_1), c |-> Str("a")])}}
          \cup {Obj([a |-> Obj([b |-> x, c |-> y]), b |-> w]) : x \in {Num(R_1), Str("a")}, y \in {Num(R_1), Str("a")}, w \in {Num(R_1), Str("a")}}
          \cup {Obj([a |-> Obj([a |-> Num(R_1), b |-> Num(R_1), c |-> Num(R_1)]), b |-> Num(R_1), c |-> w]) : w \in {Num(R_1), Str("a")}}
          \cup {Obj([a |-> Num(R_1), b |-> Obj([a |-> Num(R_1), b |-> Num(R_1)]), c |-> w]) : w \in {Num(R_1), Str("a")}}

\* ------------------------------------------------------------ U2 unevaluatedItems
ItemSubs ==
  {[prefixItems |-> <<IntS>>], [prefixItems |-> <<IntS, IntS>>], [items |-> IntS], [contains |-> StrS],
   [contains |-> StrS, minContains |-> 0], [prefixItems |-> <<IntS>>, minItems |-> 2],
   [prefixItems |-> <<TrueS, FalseS>>], [unevaluatedItems |-> IntS], TrueS, FalseS}
U2Inplace(z) ==
  {[allOf |-> q] : q \in SeqsOf(ItemSubs, 1, 2)} \cup {[anyOf |-> q] : q \in SeqsOf(ItemSubs, 1, 2)}
  \cup {[oneOf |-> q] : q \in SeqsOf(ItemSubs, 1, 2)}
  \cup {[not |-> e] : e \in ItemSubs}
  \cup {[if |-> e] : e \in ItemSubs} \cup {[if |-> [prefixItems |-> <<IntS>>, minItems |-> 2], then |-> f, else |-> g] : f, g \in {[prefixItems |-> <<TrueS, TrueS>>], TrueS}}
  \cup {[defs |-> [x |-> e], ref |-> LocalRef(PtrDefs("x"))] : e \in ItemSubs}
  \cup {[prefixItems |-> <<TrueS>>], [items |-> IntS], [contains |-> IntS], [contains |-> StrS, minContains |-> 0],
        [contains |-> TrueS], [contains |-> EmptyFcn], [contains |-> [title |-> "t"]], [allOf |-> <<[contains |-> EmptyFcn]>>],
        [contains |-> TrueS, maxContains |-> 1],
        [prefixItems |-> <<[prefixItems |-> <<TrueS, TrueS>>]>>]}
\* evaluations at CHILD instance locations (inside a nested array) must never count for the parent
ChildSubs == {[type |-> "array", items |-> TrueS], [prefixItems |-> <<TrueS, TrueS>>], [unevaluatedItems |-> TrueS],
              [contains |-> TrueS], [type |-> "array"]}
U2Child == {[contains |-> c] : c \in ChildSubs} \cup {[items |-> c] : c \in ChildSubs} \cup {[prefixItems |-> <<c>>] : c \in ChildSubs}
           \cup {[allOf |-> <<[contains |-> c]>>] : c \in ChildSubs}
           \cup {[defs |-> [x |-> [contains |-> c]], ref |-> LocalRef(PtrDefs("x"))] : c \in ChildSubs}
\* an in-place subschema that records indexes, next to the schema's own prefixItems / items / contains
U2Mixed == {x @@ y : x \in {[allOf |-> <<[contains |-> c]>>] : c \in {IntS, StrS}} \cup {[anyOf |-> <<[prefixItems |-> <<TrueS, TrueS>>], [contains |-> StrS]>>],
                                [anyOf |-> <<[contains |-> StrS], [prefixItems |-> <<TrueS>>]>>], [allOf |-> <<[prefixItems |-> <<IntS>>]>>]},
                     y \in {[prefixItems |-> <<IntS>>], [prefixItems |-> <<TrueS>>], [contains |-> IntS], [contains |-> StrS, minContains |-> 0], <<>>}}
UnevI == {[unevaluatedItems |-> FalseS], [unevaluatedItems |-> StrS]}
U2Nest2 == {InWrap(w1, InWrap(w2, e)) : w1 \in InWraps, w2 \in InWraps,
                                        e \in {[prefixItems |-> <<IntS>>], [contains |-> StrS], [items |-> IntS], [prefixItems |-> <<IntS>>, minItems |-> 2]}}
           \cup {[defs |-> [x |-> e], if |-> [ref |-> LocalRef(PtrDefs("x"))]] : e \in {[prefixItems |-> <<IntS>>], [contains |-> StrS], [prefixItems |-> <<TrueS>>]}}
U2MixedObj == {[properties |-> [a |-> IntS], allOf |-> <<[prefixItems |-> <<IntS>>]>>], [additionalProperties |-> FalseS, anyOf |-> <<[contains |-> StrS], [prefixItems |-> <<IntS>>]>>],
               [required |-> <<"a">>, properties |-> [a |-> TrueS], if |-> [prefixItems |-> <<IntS>>], then |-> [contains |-> StrS]],
               [propertyNames |-> FalseS, defs |-> [x |-> [prefixItems |-> <<IntS, IntS>>]], ref |-> LocalRef(PtrDefs("x"))]}
U2Schemas(z) == {u @@ x : u \in UnevI, x \in U2MixedObj} \cup {u @@ x : u \in UnevI, x \in U2Nest2} \cup {u @@ x : u \in UnevI, x \in IF K >= 2 THEN UNION {U2Inplace(0), Pairs(U2Inplace(0)), U2Child, U2Mixed}
                                                       ELSE UNION {U2Inplace(0), U2Child, U2Mixed}}
U2Vals == {Arr(e) : e \in SeqsOf({Num(R_1), Str("a")}, 0, 3)} \cup {Arr(<<Arr(<<Num(R_1), Num(R_1)>>), Num(R_1)>>), Num(R_1)}
          \cup {Arr(<<Arr(<<Num(R_1)>>), Num(R_3)>>), Arr(<<Arr(<<Num(R_1), Num(R_3)>>), Str("a")>>), Arr(<<Arr(<<Num(R_1)>>), Arr(<<Num(R_3)>>)>>),
                Arr(<<Str("a"), Arr(<<Str("a"), Str("a")>>), Num(R_1)>>)}

\* ------------------------------------------------------------ draft-07 families
G1Atoms ==
  {[itemsArray |-> p] : p \in SeqsOf(L2s, 0, 2)}
  \cup {[items |-> l] : l \in L2}
  \cup {[additionalItems |-> l] : l \in {FalseS, IntS, StrS}}
  \cup {[contains |-> l] : l \in {IntS, [const |-> Num(R_1)], FalseS}}
  \cup {[minItems |-> k] : k \in 0..3} \cup {[maxItems |-> k] : k \in 0..3}
  \cup {[uniqueItems |-> b] : b \in BOOLEAN}
G1Ok(s) == ~({"items", "itemsArray"} \subseteq DOMAIN s)
G1Schemas(z) == {s \in UpTo(G1Atoms) : G1Ok(s)}

G2Atoms ==
  {[depStrings |-> d] : d \in {[a |-> <<"b">>], [a |-> <<>>], [c |-> <<"a">>, a |-> <<"ab">>], [a |-> <<"c", "ab">>]}}
  \cup {[depSchemas |-> d] : d \in {[b |-> [required |-> <<"a">>]], [b |-> FalseS], [b |-> TrueS],
                                    [ab |-> [properties |-> [a |-> IntS]]]}}
  \cup {[properties |-> m] : m \in MapsOf({"a", "b"}, {IntS, FalseS}, 1, 2)}
  \cup {[patternProperties |-> m] : m \in MapsOf({"^a"}, {IntS, FalseS}, 1, 1)}
  \cup {[additionalProperties |-> l] : l \in L3}
  \cup {[required |-> r] : r \in {<<"a">>, <<"c">>, <<"c", "a">>}}
  \cup {[minProperties |-> 1], [maxProperties |-> 1], [propertyNames |-> [maxLength |-> 1]]}
G2Schemas(z) == UpTo(G2Atoms)

\* draft-07 $ref: every sibling keyword (incl. nested applicators and $id) is ignored;
\* fragment-only $id is a plain-name anchor; definitions.
G3Sibs == {[type |-> "string"], [maximum |-> R_0], [not |-> TrueS], [allOf |-> <<FalseS>>], [required |-> <<"zz">>],
           [enum |-> <<>>], [properties |-> [a |-> FalseS]], [additionalProperties |-> FalseS], [items |-> FalseS],
           [id |-> IdOf(URI("http", "h1", TRUE, <<"other.json">>))], [const |-> Null], [minItems |-> 9],
           [definitions |-> [x |-> FalseS]], [depStrings |-> [a |-> <<"q">>]]}
PtrDefn(nm) == FragPtr(<<SegN("definitions", nm)>>)
G3IdBesideRef ==
  \* a fragment-only $id BESIDE $ref is ignored like every other sibling: it declares no anchor, so the
  \* genuine #foo (before or after it in every walk order) is the one designated
  {[definitions |-> [a |-> [id |-> IdFrag("foo"), ref |-> LocalRef(PtrDefn("str"))], b |-> [id |-> IdFrag("foo")] @@ IntS, str |-> StrS],
    properties |-> [a |-> [ref |-> LocalRef(FragName("foo"))]]],
   [definitions |-> [a |-> [id |-> IdFrag("foo")] @@ IntS, b |-> [id |-> IdFrag("foo"), ref |-> LocalRef(PtrDefn("str"))], str |-> StrS],
    properties |-> [a |-> [ref |-> LocalRef(FragName("foo"))]]],
   [definitions |-> [str |-> StrS, z |-> [id |-> IdFrag("foo")] @@ IntS], id |-> IdFrag("foo"), ref |-> LocalRef(PtrDefn("str")),
    properties |-> [a |-> [ref |-> LocalRef(FragName("foo"))]]],
   [definitions |-> [a |-> [items |-> [id |-> IdFrag("foo"), ref |-> LocalRef(PtrDefn("str"))]], b |-> [id |-> IdFrag("foo")] @@ IntS, str |-> StrS],
    items |-> [ref |-> LocalRef(FragName("foo"))]]}
\* a subschema {"$ref": X, "not": {}} only LOOKS like the false schema: under draft-07 it is X, wherever it stands
G3FalsyLooking ==
  LET FR == [ref |-> LocalRef(PtrDefn("x")), not |-> TrueS]
  IN UNION {{[definitions |-> [x |-> d], itemsArray |-> <<TrueS>>, additionalItems |-> FR],
             [definitions |-> [x |-> d], additionalProperties |-> FR],
             [definitions |-> [x |-> d], additionalProperties |-> FR, properties |-> [a |-> TrueS]],
             [definitions |-> [x |-> d], items |-> FR], [definitions |-> [x |-> d], contains |-> FR],
             [definitions |-> [x |-> d], properties |-> [a |-> FR]], [definitions |-> [x |-> d], not |-> FR],
             [definitions |-> [x |-> d], depSchemas |-> [a |-> FR]], [definitions |-> [x |-> d], propertyNames |-> FR],
             [definitions |-> [x |-> d], itemsArray |-> <<FR, FR>>]} : d \in {IntS, StrS}}
G3Docs(z) ==
  G3IdBesideRef \cup G3FalsyLooking \cup
  {[definitions |-> [x |-> d], ref |-> LocalRef(PtrDefn("x"))] @@ sib : d \in DefPool, sib \in G3Sibs}
  \cup {[definitions |-> [x |-> d], properties |-> [a |-> [ref |-> LocalRef(PtrDefn("x"))] @@ sib]] : d \in {IntS, FalseS}, sib \in G3Sibs}
  \cup {[definitions |-> [x |-> d @@ [id |-> IdFrag("foo")]], ref |-> LocalRef(FragName("foo"))] : d \in DefPool \ {FalseS}}
  \cup {[definitions |-> [x |-> d @@ [id |-> IdFrag("foo")]], items |-> [ref |-> LocalRef(FragName("foo"))]] : d \in DefPool \ {FalseS}}
  \cup {[definitions |-> [x |-> [ref |-> LocalRef(PtrDefn("y")), minimum |-> R_128], y |-> d], ref |-> LocalRef(PtrDefn("x"))] : d \in DefPool}
  \cup {[definitions |-> [node |-> ListNode(LocalRef(PtrDefn("node")))], ref |-> LocalRef(PtrDefn("node"))]}
  \* a fragment-only $id (an anchor, not a resource) with references BELOW it
  \cup {[definitions |-> [node |-> ListNode(LocalRef(FragName("node"))) @@ [id |-> IdFrag("node")]], ref |-> LocalRef(FragName("node"))],
        [definitions |-> [x |-> [id |-> IdFrag("foo"), items |-> [ref |-> LocalRef(PtrDefn("y"))]], y |-> IntS], ref |-> LocalRef(FragName("foo"))],
        [definitions |-> [x |-> [id |-> IdFrag("foo"), properties |-> [a |-> [ref |-> LocalRef(FragName("foo"))], v |-> IntS]]],
         properties |-> [a |-> [ref |-> LocalRef(FragName("foo"))]]]}
\* (draft-07) the same fragment-only reference text inside two embedded resources (absolute $id, own definitions)
G3TwoRes == {[definitions |-> [cnt |-> [id |-> IdOf(URI("http", "h1", TRUE, <<"cnt.json">>)), definitions |-> [v |-> d1], type |-> "object",
                                        properties |-> [v |-> [ref |-> rf]]],
                                nam |-> [id |-> IdOf(URI("http", "h1", TRUE, <<"nam.json">>)), definitions |-> [v |-> d2], type |-> "object",
                                        properties |-> [v |-> [ref |-> rf]]]],
              properties |-> [p |-> [ref |-> Ref(URI("http", "h1", TRUE, <<"cnt.json">>), FragNone)], q |-> [ref |-> Ref(URI("http", "h1", TRUE, <<"nam.json">>), FragNone)]]] :
                d1 \in {IntS}, d2 \in {StrS, [minimum |-> R_2]}, rf \in {LocalRef(PtrDefn("v"))}}
G3Vals == {Obj([p |-> Obj([v |-> x]), q |-> Obj([v |-> y])]) : x \in {Num(R_1), Str("a")}, y \in {Num(R_1), Num(R_3), Str("a")}} \cup F5Vals \cup {Obj([a |-> x]) : x \in {Num(R_1), Str("a")}} \cup {Obj([zz |-> Num(R_1)])}
          \cup {Arr(<<Str("a"), Num(R_1)>>), Arr(<<Num(R_1), Num(R_1)>>), Arr(<<Str("a"), Str("a")>>), Arr(<<Num(R_1)>>), EmptyArr,
                Obj([b |-> Num(R_1)]), Obj([b |-> Str("a")]), Obj([a |-> Num(R_1), b |-> Str("a")])}


\* ------------------------------------------------------------ DY $dynamicRef (C06)
\* K resources r1..rK (embedded under the root's $defs, or served by the Loader)
\* plus the root resource r0; each declares, on a detached subschema $defs/t
\* marked with a unique const, a $dynamicAnchor n, a plain $anchor n, or nothing.
\* Evaluation enters a chain of distinct resources through $ref / $dynamicRef /
\* allOf hops; the last one ends in a $dynamicRef in fragment, resource-relative
\* or pointer form.  The instance pool is the set of marks: the verdict vector
\* reveals which subschema the reference reached.
DyKinds == {"dyn", "anc", "none"}
Mark == <<R_0, R_1, R_2, R_3, R_4>>          \* Mark[i+1] marks resource i
RN == <<"r1.json", "r2.json", "r3.json", "r4.json">>
TNode(kind, i) ==
  [const |-> Num(Mark[i + 1])] @@
  (IF kind = "dyn" THEN [dynamicAnchor |-> "n"] ELSE IF kind = "anc" THEN [anchor |-> "n"] ELSE <<>>)
\* a resource that declares the dynamic anchor may ALSO declare plain anchors of other names, on subschemas a walk
\* reaches later ($defs/z after $defs/t): what a resource is known to declare only grows (odd-numbered resources do)
PlainLater(kind, i) == IF kind = "dyn" /\ i % 2 = 1 THEN [z |-> [anchor |-> "pl", type |-> "null"]] ELSE <<>>
ResRef(j, f) == IF j = 0 THEN Ref(RelRef(<<"root.json">>), f) ELSE Ref(RelRef(<<RN[j]>>), f)
HopTo(j, hk) ==
  CASE hk = "ref"   -> [ref |-> ResRef(j, FragNone)]
    [] hk = "dref"  -> [dynamicRef |-> ResRef(j, FragNone)]
    [] hk = "allOf" -> [allOf |-> <<[ref |-> ResRef(j, FragNone)]>>]
    [] hk = "inner" -> [ref |-> ResRef(j, FragPtr(<<SegN("defs", "e")>>))]   \* into the interior: the root is never entered
\* mixed universes: resources in rem are Loader documents, the others are embedded in the root.
\* A Loader document reaches an embedded resource through a pointer into the root document.
HopToM(from, j, hk, rem) ==
  IF from \in rem /\ j \notin rem /\ j # 0 THEN
    LET base == <<SegN("defs", RN[j])>>
        rr(f) == Ref(RelRef(<<"root.json">>), f)
    IN CASE hk = "ref"   -> [ref |-> rr(FragPtr(base))]
         [] hk = "dref"  -> [dynamicRef |-> rr(FragPtr(base))]
         [] hk = "allOf" -> [allOf |-> <<[ref |-> rr(FragPtr(base))]>>]
         [] hk = "inner" -> [ref |-> rr(FragPtr(base \o <<SegN("defs", "e")>>))]
  ELSE HopTo(j, hk)
\* (the resource-relative form also carries a sibling evaluated AFTER the reference: it applies whichever way
\* the reference is bound - dynamically, lexically, or by the fall-back to the lexical target)
DyFinal(fin) ==
  CASE fin.k = "frag" -> [dynamicRef |-> LocalRef(FragName("n"))]
    [] fin.k = "ptr"  -> [dynamicRef |-> LocalRef(FragPtr(<<SegN("defs", "t")>>))]
    [] fin.k = "res"  -> [dynamicRef |-> ResRef(fin.j, FragName("n"))]
    \* (the sibling excludes the mark of the LEXICAL target: this variant tells "bound elsewhere, sibling applied" from
    \* "bound elsewhere, sibling skipped"; the plain variant tells the fall-back to the lexical target from a failure)
    [] fin.k = "resSib" -> [dynamicRef |-> ResRef(fin.j, FragName("n")), not |-> [const |-> Num(Mark[fin.j + 1])]]
DyFinals == {[k |-> "frag"], [k |-> "ptr"], [k |-> "resSib", j |-> 1]} \cup {[k |-> "res", j |-> j] : j \in 0..K}
\* chains: sequences of distinct resources of length 1..K
\* (the empty chain: the ROOT resource itself holds the final reference)
DyChains == {c \in UNION {[1..n -> 1..K] : n \in 0..K} : \A i, j \in DOMAIN c : i # j => c[i] # c[j]}
\* what resource i does after being entered
DyActM(i, chain, hk, fin, rem) ==
  LET pos == IF i = 0 THEN 0 ELSE IF \E p \in DOMAIN chain : chain[p] = i THEN CHOOSE p \in DOMAIN chain : chain[p] = i ELSE 99
  IN IF pos = 99 THEN <<>>                       \* never entered
     ELSE IF pos = Len(chain) THEN DyFinal(fin)
     ELSE HopToM(i, chain[pos + 1], hk, rem)
DyAct(i, chain, hk, fin) == DyActM(i, chain, hk, fin, {})
\* hop kind "dref" ($dynamicRef WITHOUT a fragment, which behaves exactly like $ref): the entered resources carry
\* a $dynamicAnchor "m" on their ROOT and the root document declares "m" as well (on $defs/u, strings only) -
\* a fragment-less reference is never re-bound, whatever its target declares
DyRootAnchor(hk) == IF hk = "dref" THEN [dynamicAnchor |-> "m"] ELSE <<>>
DyOuterM(hk) == IF hk = "dref" THEN [u |-> [dynamicAnchor |-> "m", type |-> "string"]] ELSE <<>>
DyResM(i, kinds, chain, hk, fin, withId, rem) ==
  DyRootAnchor(hk) @@
  (IF withId THEN [id |-> IdOf(RelRef(<<RN[i]>>))] ELSE <<>>)
  @@ (IF hk = "inner" THEN [defs |-> [t |-> TNode(kinds[i + 1], i), e |-> DyActM(i, chain, hk, fin, rem)] @@ PlainLater(kinds[i + 1], i)]
      ELSE [defs |-> [t |-> TNode(kinds[i + 1], i)] @@ PlainLater(kinds[i + 1], i)] @@ DyActM(i, chain, hk, fin, rem))
DyRes(i, kinds, chain, hk, fin, withId) == DyResM(i, kinds, chain, hk, fin, withId, {})
DyRootURI == URI("http", "h1", TRUE, <<"root.json">>)
DyEmbedded(kinds, chain, hk, fin) ==
  [docs |-> <<[uri |-> DyRootURI,
               s |-> [defs |-> [t |-> TNode(kinds[1], 0)] @@ DyOuterM(hk) @@ [i \in {RN[j] : j \in 1..K} |->
                                    DyRes(CHOOSE j \in 1..K : RN[j] = i, kinds, chain, hk, fin, TRUE)]]
                     @@ DyAct(0, chain, hk, fin)]>>]
DyRemote(kinds, chain, hk, fin) ==
  [docs |-> <<[uri |-> DyRootURI, s |-> [defs |-> [t |-> TNode(kinds[1], 0)] @@ DyOuterM(hk)] @@ DyAct(0, chain, hk, fin)]>>
             \o [j \in 1..K |-> [uri |-> URI("http", "h1", TRUE, <<RN[j]>>), s |-> DyRes(j, kinds, chain, hk, fin, FALSE)]]]
DyMixed(kinds, chain, hk, fin, rem) ==
  LET remSeq == SelectSeq([j \in 1..K |-> j], LAMBDA j : j \in rem)
  IN [docs |-> <<[uri |-> DyRootURI,
                  s |-> [defs |-> [t |-> TNode(kinds[1], 0)] @@ DyOuterM(hk) @@ [i \in {RN[j] : j \in (1..K) \ rem} |->
                                       DyResM(CHOOSE j \in 1..K : RN[j] = i, kinds, chain, hk, fin, TRUE, rem)]]
                        @@ DyActM(0, chain, hk, fin, rem)]>>
                \o [x \in DOMAIN remSeq |-> [uri |-> URI("http", "h1", TRUE, <<RN[remSeq[x]]>>),
                                              s |-> DyResM(remSeq[x], kinds, chain, hk, fin, FALSE, rem)]]]
DyMixedCases(z) ==
  IF K # 2 THEN {}
  ELSE {DyMixed(kinds, chain, hk, fin, rem) :
          kinds \in [1..(K + 1) -> DyKinds], chain \in DyChains, hk \in {"ref", "dref", "allOf", "inner"}, fin \in DyFinals,
          rem \in {{1}, {2}}}
DyCases(z) ==
  UNION {{DyEmbedded(kinds, chain, hk, fin), DyRemote(kinds, chain, hk, fin)} :
           \* (K >= 3: reduced alphabets keep the family enumerable)
           kinds \in [1..(K + 1) -> IF K >= 3 THEN {"dyn", "none"} ELSE DyKinds], chain \in DyChains,
           hk \in IF K >= 3 THEN {"ref", "inner"} ELSE {"ref", "dref", "allOf", "inner"}, fin \in DyFinals}
DyVals == {Num(Mark[i]) : i \in 1..(K + 1)} \cup {Str("a")}

\* FK: one $dynamicRef site reached through TWO dynamic scopes of one schema (a fork):
\*   root r0 --p--> r1 --> r3 (the site)        r4 is on no path (only ever a reference's initial target)
\*        r0 --q--> r2 --> r3
\* Whatever one evaluation learned about the site (a binding, "no resource declares the anchor") says
\* nothing about the next one: the instances take p, q and both, and the replay runs them in both orders
\* on one Resolved.
FkKindSets == [1..5 -> {"dyn", "none"}]
\* fork = "props": the two paths hang under two properties; "anyOf" / "contains": under two branches of one applicator
\* that goes on after a branch has FAILED (whatever the failed branch entered is no longer in scope)
\* "allOfItems": BOTH paths are taken for the SAME instance (allOf), and the site applies its reference to the items
\* of the instance: one subschema object meets one instance value twice in one call, under two dynamic scopes
FkBodyF(i, hk, fin, fork) ==
  CASE i = 0 /\ fork = "anyOf" -> [anyOf |-> <<HopTo(1, hk), HopTo(2, hk)>>]
    [] i = 0 /\ fork = "allOfItems" -> [allOf |-> <<HopTo(1, hk), HopTo(2, hk)>>]
    [] i = 3 /\ fork = "allOfItems" -> [items |-> [items |-> DyFinal(fin)]]     \* (the items are arrays themselves)
    [] i = 0 /\ fork = "contains" -> [contains |-> HopTo(1, hk), unevaluatedItems |-> HopTo(2, hk)]
    [] i = 0 -> [properties |-> [p |-> HopTo(1, hk), q |-> HopTo(2, hk)]]
    [] i \in {1, 2} -> HopTo(3, hk)
    [] i = 3 -> DyFinal(fin)
    [] OTHER -> <<>>
FkBody(i, hk, fin) ==
  CASE i = 0 -> [properties |-> [p |-> HopTo(1, hk), q |-> HopTo(2, hk)]]
    [] i \in {1, 2} -> HopTo(3, hk)
    [] i = 3 -> DyFinal(fin)
    [] OTHER -> <<>>
FkRes(i, kinds, hk, fin, withId) ==
  (IF withId THEN [id |-> IdOf(RelRef(<<RN[i]>>))] ELSE <<>>) @@ [defs |-> [t |-> TNode(kinds[i + 1], i)] @@ PlainLater(kinds[i + 1], i)] @@ FkBody(i, hk, fin)
FkFinals == {[k |-> "frag"], [k |-> "ptr"], [k |-> "resSib", j |-> 4]} \cup {[k |-> "res", j |-> j] : j \in 0..4}
FkEmbedded(kinds, hk, fin) ==
  [docs |-> <<[uri |-> DyRootURI,
               s |-> [defs |-> [t |-> TNode(kinds[1], 0)] @@ [i \in {RN[j] : j \in 1..4} |->
                                    FkRes(CHOOSE j \in 1..4 : RN[j] = i, kinds, hk, fin, TRUE)]]
                     @@ FkBody(0, hk, fin)]>>]
FkRemote(kinds, hk, fin) ==
  [docs |-> <<[uri |-> DyRootURI, s |-> [defs |-> [t |-> TNode(kinds[1], 0)]] @@ FkBody(0, hk, fin)]>>
             \o [j \in 1..4 |-> [uri |-> URI("http", "h1", TRUE, <<RN[j]>>), s |-> FkRes(j, kinds, hk, fin, FALSE)]]]
FkResF(i, kinds, hk, fin, withId, fork) ==
  (IF withId THEN [id |-> IdOf(RelRef(<<RN[i]>>))] ELSE <<>>) @@ [defs |-> [t |-> TNode(kinds[i + 1], i)] @@ PlainLater(kinds[i + 1], i)] @@ FkBodyF(i, hk, fin, fork)
FkEmbeddedF(kinds, hk, fin, fork) ==
  [docs |-> <<[uri |-> DyRootURI,
               s |-> [defs |-> [t |-> TNode(kinds[1], 0)] @@ [i \in {RN[j] : j \in 1..4} |->
                                    FkResF(CHOOSE j \in 1..4 : RN[j] = i, kinds, hk, fin, TRUE, fork)]]
                     @@ FkBodyF(0, hk, fin, fork)]>>]
FkForkCases(z) == {FkEmbeddedF(kinds, "ref", fin, fork) : kinds \in FkKindSets, fin \in FkFinals, fork \in {"anyOf", "contains", "allOfItems"}}
\* failed branches: an applicator that goes on after a failure (anyOf, oneOf, not, if) first tries a branch whose
\* property subschemas ARE resources r1 (under p) and r2 (under q) declaring the anchor on their roots - each
\* accepts only its own mark, so one or both fail - and then enters r3, whose $dynamicRef must see only the
\* resources that are still being evaluated (root, r3): never r1 or r2, whichever of them failed first
FkFailRes(i, kind) == [id |-> IdOf(RelRef(<<RN[i]>>))] @@ TNode(kind, i)
FkFailDoc(kinds, fork) ==
  LET A == [properties |-> [p |-> FkFailRes(1, kinds[2]), q |-> FkFailRes(2, kinds[3])]]
      B == HopTo(3, "ref")
      R3 == [id |-> IdOf(RelRef(<<RN[3]>>)), defs |-> [t |-> [dynamicAnchor |-> "n", type |-> "object"]],
             dynamicRef |-> LocalRef(FragName("n"))]
      body == CASE fork = "anyOf" -> [anyOf |-> <<A, B>>]
                [] fork = "oneOf" -> [oneOf |-> <<A, B>>]
                [] fork = "not"   -> [allOf |-> <<[not |-> A], B>>]
                [] fork = "if"    -> [if |-> A, then |-> [required |-> <<"p">>], else |-> B]
  IN [docs |-> <<[uri |-> DyRootURI, s |-> [defs |-> (RN[3] :> R3) @@ [t |-> TNode(kinds[1], 0)]] @@ body]>>]
FkFailCases(z) == {FkFailDoc(kinds, fork) : kinds \in [1..3 -> {"dyn", "none"}], fork \in {"anyOf", "oneOf", "not", "if"}}
\* the site applies its reference to the NAMES of the instance's members (propertyNames): the same name is judged
\* under r1's rule on one path and under r2's on the other - in one call and from call to call
FkNameRes(i, len) == [id |-> IdOf(RelRef(<<RN[i]>>)), defs |-> [t |-> [dynamicAnchor |-> "n", maxLength |-> len]]] @@ HopTo(3, "ref")
FkNamesDoc(l1, l2) ==
  [docs |-> <<[uri |-> DyRootURI,
               s |-> [properties |-> [p |-> HopTo(1, "ref"), q |-> HopTo(2, "ref")],
                      defs |-> (RN[1] :> FkNameRes(1, l1)) @@ (RN[2] :> FkNameRes(2, l2))
                               @@ (RN[3] :> [id |-> IdOf(RelRef(<<RN[3]>>)), defs |-> [t |-> [dynamicAnchor |-> "n"]],
                                             propertyNames |-> [dynamicRef |-> LocalRef(FragName("n"))]])]]>>]
FkNamesCases == {FkNamesDoc(1, 2), FkNamesDoc(2, 1), FkNamesDoc(1, 3)}
FkCases(z) ==
  UNION {{FkEmbedded(kinds, hk, fin), FkRemote(kinds, hk, fin)} :
           kinds \in FkKindSets, hk \in (IF K >= 2 THEN {"ref", "allOf", "dref"} ELSE {"ref"}), fin \in FkFinals}
FkVals == {Obj([p |-> Obj([ab |-> Num(R_1)])]), Obj([q |-> Obj([ab |-> Num(R_1)])]), Obj([p |-> Obj([ab |-> Num(R_1)]), q |-> Obj([ab |-> Num(R_1)])]),
           Obj([p |-> Obj([a |-> Num(R_1)]), q |-> Obj([ab |-> Num(R_1), abc |-> Num(R_1)])]), Obj([q |-> Obj([abc |-> Num(R_1)]), p |-> Obj([a |-> Num(R_1)])])} \cup
          {Arr(<<Arr(<<Num(Mark[i])>>)>>) : i \in 1..5} \cup {Arr(<<Arr(<<Num(Mark[2])>>), Arr(<<Num(Mark[3])>>)>>), Arr(<<Num(Mark[2])>>)} \cup
          {Obj([p |-> Num(Mark[i])]) : i \in 1..5} \cup {Obj([q |-> Num(Mark[i])]) : i \in 1..5}
          \cup {Obj([p |-> Num(Mark[i]), q |-> Num(Mark[j])]) : i \in 1..5, j \in 1..5}
          \cup {Num(Mark[i]) : i \in 1..5} \cup {Arr(<<Num(Mark[i]), Num(Mark[j])>>) : i \in 1..5, j \in 1..5} \cup {Arr(<<Num(Mark[i])>>) : i \in 1..5}

\* ------------------------------------------------------------ DUP: two resources with one URI (C14 only)
\* Outside every other property's quantifier (which subschema such a reference designates is not
\* specified), but whatever the package does must not depend on map iteration order: no prediction
\* ("?"), the replay only demands the same verdicts from every Resolve and in every process.
DupId(u) == [id |-> IdOf(u)]
DupDocs(z) ==
  {[defs |-> [p |-> DupId(RelRef(<<"d.json">>)) @@ x, q |-> DupId(RelRef(<<"d.json">>)) @@ y], ref |-> Ref(RelRef(<<"d.json">>), FragNone)] :
      x \in {IntS, StrS}, y \in {[type |-> "null"], [minimum |-> R_2]}}
  \cup {[defs |-> [p |-> DupId(RelRef(<<"d.json">>)) @@ [type |-> "integer", defs |-> [q |-> DupId(RelRef(<<"d.json">>)) @@ StrS]]],
         properties |-> [a |-> [ref |-> Ref(RelRef(<<"d.json">>), FragNone)]]]}
  \cup {[defs |-> [p |-> DupId(RelRef(<<"root.json">>)) @@ StrS], type |-> "integer", properties |-> [a |-> [ref |-> Ref(RelRef(<<"root.json">>), FragNone)]]]}
DupCases(z) == {[docs |-> <<[uri |-> DyRootURI, s |-> d]>>] : d \in DupDocs(0)}

\* ------------------------------------------------------------ F6 deep equality
\* const / enum / uniqueItems over structured values: equality is JSON equality at
\* every depth (member names matter also when the members are null; order of array
\* items matters; a missing member is not a null member)
F6Vals ==
  {Null, Num(R_0), Num(R_1), Bool(FALSE), Str(""), Str("a"), EmptyObj, EmptyArr,
   Obj([a |-> Null]), Obj([b |-> Null]), Obj([a |-> Num(R_1)]), Obj([b |-> Num(R_1)]), Obj([a |-> Bool(FALSE)]),
   Obj([a |-> Null, b |-> Num(R_1)]), Obj([a |-> Num(R_1), b |-> Null]), Obj([a |-> Null, b |-> Null]),
   Obj([a |-> EmptyObj]), Obj([a |-> Obj([a |-> Null])]), Obj([a |-> Obj([b |-> Null])]), Obj([a |-> EmptyArr]), Obj([a |-> Arr(<<Null>>)]),
   Arr(<<Null>>), Arr(<<Num(R_1)>>), Arr(<<Null, Null>>), Arr(<<Num(R_1), Null>>), Arr(<<Null, Num(R_1)>>), Arr(<<EmptyObj>>),
   Arr(<<EmptyArr>>), Arr(<<Obj([a |-> Null])>>), Arr(<<Obj([b |-> Null])>>), Arr(<<Arr(<<Null>>)>>), Arr(<<Str("a")>>), Arr(<<Bool(FALSE)>>)}
F6Small == {Null, EmptyObj, Obj([a |-> Null]), Obj([b |-> Null]), Obj([a |-> Num(R_1)]), Arr(<<Null>>), EmptyArr, Num(R_1),
            Num(R_0), Arr(<<Num(R_0)>>), Obj([a |-> Num(R_0)])}
F6Atoms == {[const |-> c] : c \in F6Vals} \cup {[enum |-> <<c, d>>] : c \in F6Small, d \in F6Small}
F6Schemas(z) == UNION {F6Atoms, {[not |-> a] : a \in F6Atoms}, {[properties |-> [a |-> a]] : a \in F6Atoms},
                       {[items |-> a] : a \in F6Atoms}, {[contains |-> a] : a \in F6Atoms},
                       {[uniqueItems |-> TRUE], [uniqueItems |-> TRUE, minItems |-> 2], [items |-> [uniqueItems |-> TRUE]]}}
\* a duplicate separated from its twin by a DIFFERENT item that a simple hash is likely to confuse with it (null / false /
\* 0 / "" / empty containers; sequences and members with the same concatenation): uniqueness is decided against
\* EVERY earlier item
F6Coll == {Null, Bool(FALSE), Num(R_0), Str(""), EmptyArr, EmptyObj, Arr(<<Null>>), Arr(<<Bool(FALSE)>>),
           Arr(<<Str("ab"), Str("a")>>), Arr(<<Str("a"), Str("ba")>>), Obj([a |-> Str("ba")]), Obj([ab |-> Str("a")])}
F6Insts == UNION {{Arr(<<x, y, x>>) : x \in F6Coll, y \in F6Coll},
                  F6Vals, {Arr(<<x, y>>) : x \in F6Small, y \in F6Small}, {Obj([a |-> x]) : x \in F6Vals},
                  {Arr(<<Arr(<<x, y>>)>>) : x \in {Obj([a |-> Null]), Obj([b |-> Null])}, y \in {Obj([a |-> Null]), Obj([b |-> Null])}}}

\* ------------------------------------------------------------ W wide values
\* objects and arrays with many members (17, 20, 33, 70): whatever work bound, bucket count or
\* iteration order the implementation uses, equality and uniqueness are decided on ALL members
WKey(i) == "k" \o ToString(i)
Wide(n, x) == Obj([k \in {WKey(i) : i \in 1..n} |-> x])
WideBut(n, x, j, y) == Obj([k \in {WKey(i) : i \in 1..n} |-> IF k = WKey(j) THEN y ELSE x])
WideArr(n, x) == Arr([i \in 1..n |-> x])
WideArrBut(n, x, j, y) == Arr([i \in 1..n |-> IF i = j THEN y ELSE x])
WSizes == {3, 16, 17, 20, 33, 70}
WSchemas(z) == {[uniqueItems |-> TRUE], [items |-> [uniqueItems |-> TRUE]], [properties |-> [a |-> [uniqueItems |-> TRUE]]]}
               \cup {[const |-> Wide(n, Num(R_1))] : n \in WSizes} \cup {[enum |-> <<Num(R_0), WideArr(n, Num(R_1))>>] : n \in WSizes}
               \cup {[items |-> [const |-> Wide(17, Null)]], [not |-> [enum |-> <<Wide(20, Num(R_1)), Wide(17, Num(R_1))>>]]}
WInsts == UNION {
  {Wide(n, Num(R_1)) : n \in WSizes}, {WideArr(n, Num(R_1)) : n \in WSizes}, {Wide(17, Null)},
  {Arr(<<Wide(n, Num(R_1)), Wide(n, Num(R_1))>>) : n \in WSizes},
  {Arr(<<Wide(n, Num(R_1)), WideBut(n, Num(R_1), n, Num(R_2))>>) : n \in WSizes},
  {Arr(<<Wide(n, Num(R_1)), WideBut(n, Num(R_1), 1, Null)>>) : n \in WSizes},
  {Arr(<<WideArr(n, Num(R_1)), WideArr(n, Num(R_1))>>) : n \in WSizes},
  {Arr(<<WideArr(n, Num(R_1)), WideArrBut(n, Num(R_1), n, Num(R_0))>>) : n \in WSizes},
  {Arr(<<Wide(17, Null), Wide(17, Null)>>), Arr(<<Wide(17, Null), Wide(16, Null)>>), Arr(<<Wide(20, Num(R_1)), Wide(17, Num(R_1))>>)},
  {Obj([a |-> Arr(<<Wide(20, Num(R_1)), Num(R_1), Wide(20, Num(R_1))>>)]), Arr(<<Arr(<<Wide(33, Str("a")), Wide(33, Str("a"))>>)>>)},
  {WideArr(n, Wide(2, Num(R_1))) : n \in {2, 17}}, {Arr([i \in 1..n |-> Num(Mark[(i % 5) + 1])]) : n \in {5, 6, 40}},
  {Arr([i \in 1..n |-> Arr(<<Num(Mark[(i % 5) + 1]), Num(Mark[((i \div 5) % 5) + 1])>>)]) : n \in {25, 26}}}

\* ------------------------------------------------------------ selection
Stamp(s) == IF Dr = "d7" THEN s @@ [schema |-> D7http] ELSE s
WithSchema(ss) == {Single(Stamp(s)) : s \in ss}

\* G4: the $schema switch.  Documents legal in both drafts whose meaning differs
\* ($ref siblings), under every $schema configuration.
SchemaVals == {D7http, D7https, D2020, "http://json-schema.org/draft-04/schema#",
               "http://json-schema.org/draft-07/schema", "https://json-schema.org/draft/2020-12/schema#",
               "https://json-schema.org/draft/2019-09/schema", "draft-07"}
G4Base == {[definitions |-> [x |-> d], ref |-> LocalRef(PtrDefn("x"))] @@ sib : d \in {IntS, [minimum |-> R_2]},
                                                                              sib \in {[maximum |-> R_0], [type |-> "string"], [not |-> TrueS]}}
          \cup {IntS, [type |-> "number"], [not |-> IntS]}
G4Docs(z) == {Single(s) : s \in G4Base} \cup {Single(s @@ [schema |-> v]) : s \in G4Base, v \in SchemaVals}

\* G5: draft-07 roots that load remote documents (with and without their own
\* $schema) from the root and from subschemas; the remote documents rely on
\* draft-07 semantics ($id-as-anchor, $ref siblings ignored).
RootURI == URI("http", "h1", TRUE, <<"root.json">>)
RemURI  == URI("http", "h1", TRUE, <<"r.json">>)
RemRef(f) == Ref(RelRef(<<"r.json">>), f)
G5Rem0 == {[definitions |-> [x |-> d @@ [id |-> IdFrag("foo")]], ref |-> LocalRef(FragName("foo")), maximum |-> R_0] : d \in {IntS, [minimum |-> R_2]}}
          \cup {[definitions |-> [x |-> IntS @@ [id |-> IdFrag("foo")]]], [itemsArray |-> <<IntS>>, additionalItems |-> FalseS],
                [depStrings |-> [a |-> <<"b">>]], IntS}
\* remote documents that declare ANOTHER dialect (2020-12, the draft-07 URI without "#", something unknown): the
\* evaluator still works under the ROOT's draft - its draft-07 keywords apply there as anywhere else
G5RemForeign == {r @@ [schema |-> v] : r \in {[depStrings |-> [a |-> <<"b">>]], [depSchemas |-> [a |-> [required |-> <<"b">>]]],
                                              [itemsArray |-> <<IntS>>, additionalItems |-> FalseS], IntS,
                                              [properties |-> [a |-> [depStrings |-> [a |-> <<"b">>]]]]},
                                       v \in {D2020, "http://json-schema.org/draft-07/schema", "urn:unknown-dialect"}}
G5Rem == G5Rem0 \cup {r @@ [schema |-> v] : r \in G5Rem0, v \in {D7http, D7https}} \cup G5RemForeign
G5Roots == {[ref |-> RemRef(FragNone)], [properties |-> [a |-> [ref |-> RemRef(FragNone)]]],
            [items |-> [ref |-> RemRef(FragName("foo"))]], [ref |-> RemRef(FragName("foo"))],
            [allOf |-> <<[ref |-> RemRef(FragPtr(<<SegN("definitions", "x")>>))]>>],
            [definitions |-> [y |-> [ref |-> RemRef(FragNone)]], ref |-> LocalRef(PtrDefn("y"))]}
\* two hops: the root refers to a.json (no $schema) which refers to r.json (no $schema): the draft is
\* inherited transitively
Rem2Hop == {[ref |-> RemRef(FragNone)], [properties |-> [a |-> [ref |-> RemRef(FragName("foo"))]]],
            [items |-> [ref |-> RemRef(FragNone)]]}
HopURI == URI("http", "h1", TRUE, <<"a.json">>)
HopRef(f) == Ref(RelRef(<<"a.json">>), f)
G5Docs(z) == {[docs |-> <<[uri |-> RootURI, s |-> r @@ [schema |-> v]], [uri |-> RemURI, s |-> m]>>] :
                 r \in G5Roots, v \in {D7http, D7https}, m \in G5Rem}
             \cup {[docs |-> <<[uri |-> RootURI, s |-> r @@ [schema |-> v]], [uri |-> HopURI, s |-> h], [uri |-> RemURI, s |-> m]>>] :
                 r \in {[ref |-> HopRef(FragNone)], [properties |-> [a |-> [ref |-> HopRef(FragNone)]]], [items |-> [ref |-> HopRef(FragNone)]]},
                 v \in {D7http}, h \in Rem2Hop, m \in G5Rem0}
\* MX: documents of DIFFERENT supported dialects in one universe (a 2020-12 or dialect-less root loading a document
\* that declares draft-07, a draft-07 root loading one that declares 2020-12), the loaded document using keywords of the
\* other dialect ($dynamicRef / $dynamicAnchor / $anchor in a draft-07 document, fragment-only $id, array-form items and
\* dependencies in a 2020-12 one).  No property fixes the reading of such a universe, so there is NO prediction ("?");
\* what every property still demands is a result: a value or an error from Resolve and from every Validate (C10),
\* the same one every time (C14).
MxRemBodies == {[definitions |-> [str |-> [type |-> "string"]], dynamicRef |-> LocalRef(FragPtr(<<SegN("definitions", "str")>>))],
                [defs |-> [t |-> [dynamicAnchor |-> "n", type |-> "string"]], dynamicRef |-> LocalRef(FragName("n"))],
                [dynamicAnchor |-> "n", properties |-> [a |-> [dynamicRef |-> LocalRef(FragName("n"))]]],
                [defs |-> [x |-> IntS @@ [anchor |-> "foo"]], ref |-> LocalRef(FragName("foo"))],
                [definitions |-> [x |-> IntS @@ [id |-> IdFrag("foo")]], ref |-> LocalRef(FragName("foo")), maximum |-> R_0],
                [itemsArray |-> <<IntS>>, additionalItems |-> FalseS], [depStrings |-> [a |-> <<"b">>]],
                [prefixItems |-> <<IntS>>, items |-> FalseS, unevaluatedProperties |-> FalseS],
                [dynamicRef |-> Ref(RelRef(<<"root.json">>), FragName("n"))]}
MxRoots == {[ref |-> RemRef(FragNone)], [properties |-> [a |-> [ref |-> RemRef(FragNone)]]],
            [defs |-> [t |-> [dynamicAnchor |-> "n", type |-> "integer"]], items |-> [ref |-> RemRef(FragNone)]],
            [defs |-> [t |-> [dynamicAnchor |-> "n"]], dynamicRef |-> RemRef(FragName("n"))]}
MxDocs(z) == {[docs |-> <<[uri |-> RootURI, s |-> r @@ rv], [uri |-> RemURI, s |-> m @@ [schema |-> mv]]>>] :
                r \in MxRoots, m \in MxRemBodies,
                rv \in {<<>>, [schema |-> D2020], [schema |-> D7http]}, mv \in {D7http, D7https, D2020}}
\* a diamond: the root reaches r.json directly (first, by walk order) and again through a.json, whose reference
\* names a draft-07 anchor (fragment-only $id) in the document that is already loaded by then
G5Diamond == {[docs |-> <<[uri |-> RootURI, s |-> [schema |-> v, properties |-> [a |-> [ref |-> RemRef(f1)], b |-> [ref |-> HopRef(FragNone)]]]],
                          [uri |-> HopURI, s |-> h], [uri |-> RemURI, s |-> m]>>] :
                 v \in {D7http, D7https}, f1 \in {FragNone, FragPtr(<<SegN("definitions", "x")>>)},
                 h \in {[ref |-> RemRef(FragName("foo"))], [items |-> [ref |-> RemRef(FragName("foo"))]],
                        [definitions |-> [y |-> [ref |-> RemRef(FragName("foo"))]], ref |-> LocalRef(PtrDefn("y"))]},
                 m \in {[definitions |-> [x |-> d @@ [id |-> IdFrag("foo")]]] : d \in {IntS, [minimum |-> R_2]}}}
Cases ==
  CASE Family = "F1" -> WithSchema(F1Schemas(0))
    [] Family = "F2" -> WithSchema(F2Schemas(0))
    [] Family = "F3" -> WithSchema(F3Schemas(0))
    [] Family = "F4" -> WithSchema(F4Schemas(0))
    [] Family = "F5" -> WithSchema(F5Docs(0))
    [] Family = "F6" -> WithSchema(F6Schemas(0))
    [] Family = "W" -> WithSchema(WSchemas(0))
    [] Family = "U1" -> WithSchema(U1Schemas(0))
    [] Family = "U2" -> WithSchema(U2Schemas(0))
    [] Family = "G1" -> WithSchema(G1Schemas(0))
    [] Family = "G2" -> WithSchema(G2Schemas(0))
    [] Family = "G3" -> WithSchema(G3Docs(0) \cup G3TwoRes)
    [] Family = "G4" -> G4Docs(0)
    [] Family = "G5" -> {u \in G5Docs(0) \cup G5Diamond : ResolveOK(u, "d7")}
    [] Family = "DY" -> DyCases(0) \cup DyMixedCases(0)
    [] Family = "FK" -> FkCases(0) \cup FkForkCases(0) \cup FkFailCases(0) \cup FkNamesCases
    [] Family = "DUP" -> DupCases(0)
    [] Family = "MX" -> MxDocs(0)
InstSet ==
  CASE Family = "F1" -> ScalarVals
    [] Family = "F2" -> ArrVals
    [] Family = "F3" -> ObjVals
    [] Family = "F4" -> LogicVals
    [] Family = "F5" -> F5Vals
    [] Family = "F6" -> F6Insts
    [] Family = "W" -> WInsts
    [] Family = "U1" -> U1Vals
    [] Family = "U2" -> U2Vals
    [] Family = "G1" -> ArrVals
    [] Family = "G2" -> ObjVals
    [] Family = "G3" -> G3Vals
    [] Family = "G4" -> {Null, Num(R_1), Num(R_3), Num(R_h), Str("a"), EmptyObj}
    [] Family = "G5" -> G3Vals \cup ArrVals \cup {Obj([a |-> Num(R_1), b |-> Num(R_1)])}
    [] Family = "DY" -> DyVals
    [] Family = "FK" -> FkVals
    [] Family = "DUP" -> {Null, Num(R_1), Num(R_3), Str("a"), Obj([a |-> Num(R_1)]), Obj([a |-> Str("a")]), Obj([a |-> Null])}
    [] Family = "MX" -> {Null, Num(R_1), Str("a"), Obj([a |-> Num(R_1)]), Obj([a |-> Str("a")]), Obj([a |-> Obj([a |-> Num(R_1)])]),
                         Arr(<<Num(R_1)>>), Arr(<<Str("a"), Num(R_1)>>), Arr(<<Obj([a |-> Str("a")])>>)}

Insts == SetToSeq(InstSet)

\* multipleOf is only specified on the dyadic / 2^53 domain
RootS(U) == U.docs[1].s
MentionsMult(s) == \/ Has(s, "multipleOf")
                   \/ Has(s, "not") /\ ~Has(s["not"], "bool") /\ Has(s["not"], "multipleOf")
                   \/ Has(s, "oneOf") /\ \E i \in DOMAIN s.oneOf : ~Has(s.oneOf[i], "bool") /\ Has(s.oneOf[i], "multipleOf")
InDomain(U, v) == (v.t = "num" /\ MentionsMult(RootS(U))) => v.n \in NumSmall

Skip == [skip |-> TRUE]

Init == /\ cs \in Cases
        /\ phase = "new"
        /\ res = <<>>

\* res[i] is the full L0 result (verdict and annotation sets) for instance i
ROK(U) == DrOf(U) = "refused" \/ ResolveOK(U, DrOf(U))

Next == /\ phase = "new"
        /\ phase' = "done"
        /\ cs' = cs
        /\ res' = IF Family = "MX" THEN [i \in DOMAIN Insts |-> Skip] ELSE IF ~ROK(cs) THEN <<>>
                  ELSE [i \in DOMAIN Insts |->
                          IF InDomain(cs, Insts[i]) THEN EvTop(cs, Insts[i]) ELSE Skip]

Spec == Init /\ [][Next]_vars

\* Every universe is inside the property's quantifier: all references designate.
\* (family DY deliberately contains references that designate nothing: there the
\* prediction is that Resolve fails)
Wellformed == (phase = "new" /\ Family \notin {"DY", "DUP", "FK", "MX"}) => ROK(cs)

\* L1 (code-shaped) refines L0 (specification-shaped): same verdict, and on
\* success the compressed annotations denote the specification's sets.
Refines ==
  (phase = "done" /\ Family # "DUP") =>
    \A i \in DOMAIN res : res[i] # Skip =>
      LET c == CvTop(cs, Insts[i])
          e == res[i]
      IN /\ c.ok = e.ok
         /\ (c.ok /\ DrOf(cs) = "2020") =>
              /\ DenItems(c.anns, Insts[i]) = e.items
              /\ DenProps(c.anns, Insts[i]) = e.props

NoPred == Family \in {"DUP", "MX"}
Verdicts == [i \in DOMAIN res |-> IF NoPred THEN "?" ELSE IF res[i] = Skip THEN "x" ELSE IF res[i].ok THEN "T" ELSE "F"]
Targets == IF ~NoPred /\ DrOf(cs) # "refused" /\ ROK(cs) THEN SetToSeq(DesignatedTargets(cs, DrOf(cs))) ELSE <<>>
\* (family DY, mixed universes: a Loader document whose final reference names a resource EMBEDDED in the root by its URI
\* is the known finding KF-crossdoc - L0 designates the resource, the package asks the Loader)
Feat == IF Family = "DY" /\ DrOf(cs) # "refused" /\ HasCrossEmb(cs, DrOf(cs)) THEN <<"crossdoc-embedded">> ELSE <<>>
Emit == phase = "done" => PrintT(<<"CASE", ToJson([feat |-> Feat, u |-> cs, exp |-> Verdicts, dr |-> DrOf(cs), res |-> IF Family = "MX" THEN "?" ELSE IF ROK(cs) THEN "ok" ELSE "err",
                                                   targets |-> Targets])>>)

ASSUME PrintT(<<"INSTS", ToJson(Insts)>>)
====
