---- MODULE Heap ----
(***************************************************************************)
(* Object identity of Schema nodes (C20, C16, C14).                        *)
(* A heap is a function id -> [content, kids] where kids maps a child      *)
(* segment (SchemaDoc.tla) to the id of the child node; content is the     *)
(* node's own non-schema keywords.  Ids are sequences <<tag>> \o path.     *)
(*                                                                         *)
(* Clone(h, root, tag, fields): CloneSchemas as a walk over the field      *)
(* table `fields` (the keywords whose values hold subschemas): every node  *)
(* reached through a field of the table gets a fresh id; a child under a   *)
(* keyword MISSING from the table is shared (the shallow copy keeps the    *)
(* pointer) - that is what MUT_SkipField(f) models.                        *)
(***************************************************************************)
EXTENDS SchemaDoc

AllKW == SingleKW \cup SeqKW \cup MapKW

\* allocate the tree s under id prefix tag
RECURSIVE Alloc(_, _, _)
Alloc(s, tag, path) ==
  LET segs == ChildSegs(s)
      me == [id |-> <<tag>> \o path,
             content |-> [k \in DOMAIN s \ AllKW |-> s[k]],
             kids |-> [seg \in segs |-> <<tag>> \o Append(path, seg)]]
  IN {me} \cup UNION {Alloc(Sub(s, seg), tag, Append(path, seg)) : seg \in segs}

HeapOf(s, tag) == LET ns == Alloc(s, tag, <<>>) IN [i \in {n.id : n \in ns} |-> CHOOSE n \in ns : n.id = i]

\* ids reachable from r
RECURSIVE Reach(_, _)
Reach(h, r) == {r} \cup UNION {Reach(h, h[r].kids[seg]) : seg \in DOMAIN h[r].kids}

\* the tree denoted by id r (content + structure, ignoring identity)
RECURSIVE Shape(_, _)
Shape(h, r) == [content |-> h[r].content, kids |-> [seg \in DOMAIN h[r].kids |-> Shape(h, h[r].kids[seg])]]

Retag(id, tag) == <<tag>> \o Tail(id)

\* Seeded mutations of CloneSchemas (MUT_Clone = "none": the code as it is; the others must be refuted by TLC):
\*   "shareEmptyChild"  an empty schema under a single-schema keyword looks like an absent keyword: not cloned
\*   "shallowSeqElems"  the elements of schema arrays are copied, what hangs below them is not
CONSTANT MUT_Clone
IsEmptyNode(n) == DOMAIN n.content = {} /\ DOMAIN n.kids = {}
\* CloneSchemas over the field table
RECURSIVE CloneNodes(_, _, _, _)
CloneNodes(h, r, tag, fields) ==
  LET n == h[r]
      cloned == {seg \in DOMAIN n.kids : /\ seg.k \in fields
                                         /\ ~(MUT_Clone = "shareEmptyChild" /\ seg.k \in SingleKW /\ IsEmptyNode(h[n.kids[seg]]))}
      me == [id |-> Retag(r, tag), content |-> n.content,
             kids |-> [seg \in DOMAIN n.kids |-> IF seg \in cloned THEN Retag(n.kids[seg], tag) ELSE n.kids[seg]]]
  IN {me} \cup UNION {CloneNodes(h, n.kids[seg], tag, IF MUT_Clone = "shallowSeqElems" /\ seg.k \in SeqKW THEN {} ELSE fields) : seg \in cloned}

Clone(h, r, tag, fields) ==
  LET ns == CloneNodes(h, r, tag, fields)
  IN [i \in DOMAIN h \cup {n.id : n \in ns} |-> IF \E n \in ns : n.id = i THEN CHOOSE n \in ns : n.id = i ELSE h[i]]

\* assigning to a field of node x: replace its content (or drop a kid)
MutateContent(h, x) == [h EXCEPT ![x].content = [mutated |-> TRUE]]
====
