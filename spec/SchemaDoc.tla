---- MODULE SchemaDoc ----
(***************************************************************************)
(* Abstract syntax of schema documents.                                    *)
(*                                                                         *)
(* A schema is a record that has a field exactly for each keyword present. *)
(* Boolean schemas are [bool |-> TRUE] / [bool |-> FALSE].                 *)
(* Field names follow the JSON keyword where that is a TLA+ identifier;    *)
(* ref, dynamicRef, anchor, dynamicAnchor, id, defs, schema, comment stand *)
(* for the $-prefixed keywords; draft-07 "items": [...] is itemsArray and  *)
(* draft-07 "dependencies" is split into depSchemas / depStrings (as the   *)
(* package's Schema struct does).                                          *)
(*                                                                         *)
(* A location inside a document is a path: a sequence of segments          *)
(*   [k |-> kw]            single-schema keyword                           *)
(*   [k |-> kw, i |-> n]   n-th element (1-based) of a schema-array keyword*)
(*   [k |-> kw, n |-> nm]  entry nm of a schema-map keyword                *)
(***************************************************************************)
EXTENDS Naturals, Sequences, FiniteSets, JsonValue, URI

TrueS  == [bool |-> TRUE]
FalseS == [bool |-> FALSE]

SingleKW == {"items", "additionalItems", "contains", "unevaluatedItems",
             "additionalProperties", "propertyNames", "unevaluatedProperties",
             "not", "if", "then", "else", "contentSchema"}
SeqKW    == {"prefixItems", "itemsArray", "allOf", "anyOf", "oneOf"}
MapKW    == {"properties", "patternProperties", "dependentSchemas", "depSchemas",
             "defs", "definitions"}

SegK(kw)     == [k |-> kw]
SegI(kw, i)  == [k |-> kw, i |-> i]
SegN(kw, nm) == [k |-> kw, n |-> nm]

Sub(s, seg) ==
  IF "i" \in DOMAIN seg THEN s[seg.k][seg.i]
  ELSE IF "n" \in DOMAIN seg THEN s[seg.k][seg.n]
  ELSE s[seg.k]

HasSub(s, seg) ==
  /\ seg.k \in DOMAIN s
  /\ IF "i" \in DOMAIN seg THEN seg.k \in SeqKW /\ seg.i \in DOMAIN s[seg.k]
     ELSE IF "n" \in DOMAIN seg THEN seg.k \in MapKW /\ seg.n \in DOMAIN s[seg.k]
     ELSE seg.k \in SingleKW

ChildSegs(s) ==
  {SegK(kw) : kw \in SingleKW \cap DOMAIN s}
  \cup UNION {{SegI(kw, i) : i \in DOMAIN s[kw]} : kw \in SeqKW \cap DOMAIN s}
  \cup UNION {{SegN(kw, nm) : nm \in DOMAIN s[kw]} : kw \in MapKW \cap DOMAIN s}

RECURSIVE NodeAtS(_, _)
NodeAtS(s, p) == IF p = <<>> THEN s ELSE NodeAtS(Sub(s, Head(p)), Tail(p))

RECURSIVE HasPath(_, _)
HasPath(s, p) ==
  IF p = <<>> THEN TRUE
  ELSE HasSub(s, Head(p)) /\ HasPath(Sub(s, Head(p)), Tail(p))

RECURSIVE AllPaths(_)
AllPaths(s) ==
  {<<>>} \cup UNION {{<<seg>> \o p : p \in AllPaths(Sub(s, seg))} : seg \in ChildSegs(s)}

IsPrefixOf(p, q) == Len(p) <= Len(q) /\ SubSeq(q, 1, Len(p)) = p

\* Number of schema nodes in a document.
Size(s) == Cardinality(AllPaths(s))
====
