---- MODULE Codec ----
(***************************************************************************)
(* Marshal / Unmarshal of Schema (schema.go, util.go) on the abstract      *)
(* syntax of SchemaDoc.tla.  A Schema VALUE is the same kind of record as  *)
(* a schema document: a field is absent (nil / zero) or present; present   *)
(* sequences and maps may be empty (the non-nil empty Go slice / map).     *)
(*                                                                         *)
(* C19  KeyOrder(props, order): names of order present in props, in list   *)
(*      order, then the remaining names ascending (byte order); a          *)
(*      duplicate in order is an error.  KeyOrderCode = orderedProperties. *)
(* C05  Mar(s): which keywords Marshal emits (omitempty drops nil AND      *)
(*      empty slices/maps unless the keyword goes through the shadow       *)
(*      struct), Unm(d): what Unmarshal rebuilds; round trips keep the     *)
(*      meaning (Eval verdicts) and are idempotent.                        *)
(* C18  field matching: a key names a keyword iff it is EXACTLY the        *)
(*      keyword; everything else goes to Extra and never asserts.          *)
(* Deviation switches (code before the fixes):                             *)
(*   DEV_OmitEmptyAssertingLists  enum/anyOf/oneOf [] dropped by omitempty *)
(*   DEV_CaseFoldKeys             encoding/json matches keys ignoring case *)
(***************************************************************************)
EXTENDS SchemaDoc, FiniteSetsExt

CONSTANTS DEV_OmitEmptyAssertingLists, DEV_CaseFoldKeys

\* Seeded mutations of the codec (MUT_Codec = "none": the code as it is; every other value must be refuted by
\* TLC, see the selftest):
\*   "dupOnlyPresent"  duplicate PropertyOrder entries are rejected only if they name a property
\*   "orderGuard"      unlisted properties are written only when PropertyOrder is shorter than properties
\*   "sortEncoded"     unlisted properties are sorted by their RENDERED member text, not by name
\*   "falsyDrops"      a schema with "not": {} is written as false whatever else it carries
\*   "extraClashLate"  an Extra key named like a keyword is refused only when the schema also has real keywords
CONSTANT MUT_Codec

\* ------------------------------------------------------------ C19
SeqHas(q, x) == \E i \in DOMAIN q : q[i] = x
HasDup(q) == \E i, j \in DOMAIN q : i < j /\ q[i] = q[j]
\* ascending by StrOrd
RECURSIVE SortNames(_)
SortNames(S) == IF S = {} THEN <<>>
                ELSE LET m == CHOOSE x \in S : \A y \in S : StrOrd[x] <= StrOrd[y] IN <<m>> \o SortNames(S \ {m})
RECURSIVE Listed(_, _)
Listed(order, props) == IF order = <<>> THEN <<>>
                        ELSE (IF Head(order) \in props THEN <<Head(order)>> ELSE <<>>) \o Listed(Tail(order), props)
\* L0
KeyOrder(props, order) ==
  IF HasDup(order) THEN <<"!error">>
  ELSE Listed(order, props) \o SortNames(props \ {order[i] : i \in DOMAIN order})
\* L1: orderedProperties.MarshalJSON with its `processed` set; basicChecks rejects duplicates first
RECURSIVE OPLoop(_, _, _, _)
OPLoop(order, props, processed, out) ==
  IF order = <<>> THEN [out |-> out, processed |-> processed]
  ELSE IF Head(order) \in props
         THEN OPLoop(Tail(order), props, processed \cup {Head(order)}, Append(out, Head(order)))
         ELSE OPLoop(Tail(order), props, processed, out)
RECURSIVE SortNamesEnc(_)
SortNamesEnc(S) == IF S = {} THEN <<>>
                   ELSE LET m == CHOOSE x \in S : \A y \in S : StrOrdEnc[x] <= StrOrdEnc[y] IN <<m>> \o SortNamesEnc(S \ {m})
KeyOrderCode(props, order) ==
  IF HasDup(IF MUT_Codec = "dupOnlyPresent" THEN SelectSeq(order, LAMBDA x : x \in props) ELSE order) THEN <<"!error">>
  ELSE LET r == OPLoop(order, props, {}, <<>>)
           rest == {n \in props : n \notin r.processed}
       IN r.out \o (IF MUT_Codec = "orderGuard" /\ Len(order) >= Cardinality(props) THEN <<>>
                    ELSE IF MUT_Codec = "sortEncoded" THEN SortNamesEnc(rest) ELSE SortNames(rest))

\* ------------------------------------------------------------ C05
\* keywords whose Go field is a slice or map with `omitempty`
OmitEmptySeq == {"enum", "examples", "prefixItems", "required", "allOf", "anyOf", "oneOf"}
OmitEmptyMap == {"defs", "definitions", "dependentRequired", "patternProperties", "dependentSchemas", "vocabulary"}
\* an empty list under these keywords changes the verdict: they must survive
AssertingLists == {"enum", "anyOf", "oneOf"}
IsEmptyVal(x) == DOMAIN x = {}
\* Mar: the set of keywords of s that appear in the marshaled document
Emitted(s) ==
  {k \in DOMAIN s :
     IF k \in OmitEmptySeq \cup OmitEmptyMap
       THEN ~IsEmptyVal(s[k]) \/ (k \in AssertingLists /\ ~DEV_OmitEmptyAssertingLists)
       ELSE IF k \in {"depSchemas", "depStrings"} THEN ~IsEmptyVal(s[k])
       ELSE IF k \in {"uniqueItems", "deprecated", "readOnly", "writeOnly"} THEN s[k]
       ELSE IF k = "propertyOrder" THEN FALSE            \* json:"-": only steers the order of "properties"
       ELSE TRUE}
\* Extra holds UNKNOWN keywords.  A key of Extra that is the JSON name of a real keyword cannot be written: the
\* document would carry it as that keyword and read back with another meaning.  Marshal refuses such a value
\* (at any depth), whatever else the schema holds.
ClashKeys == {"minimum", "not", "type"}
ExtraClash(s) == "extra" \in DOMAIN s /\ DOMAIN s.extra \cap ClashKeys # {}
ExtraAsKW(k, v) == CASE k = "minimum" -> v.n [] k = "not" -> [bool |-> v.b] [] k = "type" -> v.s
RECURSIVE MarErr(_)
MarErr(s) ==
  IF "bool" \in DOMAIN s THEN FALSE
  ELSE \/ ExtraClash(s) /\ (MUT_Codec = "extraClashLate" => Emitted(s) \ {"extra"} # {})
       \/ \E k \in Emitted(s) : \/ k \in SingleKW /\ MarErr(s[k])
                                \/ k \in SeqKW /\ \E i \in DOMAIN s[k] : MarErr(s[k][i])
                                \/ k \in MapKW /\ \E n \in DOMAIN s[k] : MarErr(s[k][n])
RECURSIVE Mar(_)
\* the document Marshal writes for schema value s (boolean folding is a rendering matter)
Mar(s) ==
  IF "bool" \in DOMAIN s THEN s
  ELSE IF MUT_Codec = "falsyDrops" /\ "not" \in DOMAIN s /\ s["not"] = [bool |-> TRUE] THEN [bool |-> FALSE]
  \* (only reached under "extraClashLate": the clashing keys are written verbatim - and are keywords to every reader)
  ELSE IF ExtraClash(s) /\ Emitted(s) = {"extra"}
         THEN [k \in DOMAIN s.extra \cap ClashKeys |-> ExtraAsKW(k, s.extra[k])]
  ELSE [k \in Emitted(s) |->
          IF k \in SingleKW THEN Mar(s[k])
          ELSE IF k \in SeqKW THEN [i \in DOMAIN s[k] |-> Mar(s[k][i])]
          ELSE IF k \in MapKW THEN [n \in DOMAIN s[k] |-> Mar(s[k][n])]
          ELSE s[k]]
\* Unmarshal rebuilds exactly the keywords of the document (Unm = identity on
\* the abstract syntax; `false` becomes {"not": {}}, which Eval treats alike)
Unm(d) == d
RoundTrip(s) == Unm(Mar(s))

\* ------------------------------------------------------------ C18
\* A document key k is read as keyword kw iff ...
Lower == [c \in {"Type", "TYPE", "type", "MINIMUM", "Minimum", "minimum", "Required", "required", "$REF", "$ref", "ITEMS", "items",
                 "Enum", "enum", "CONST", "const", "Not", "not", "x", "properties ", "Properties", "properties", "AllOf", "allOf",
                 "MaxLength", "maxLength", "$Defs", "$defs"} |->
            CASE c \in {"Type", "TYPE", "type"} -> "type" [] c \in {"MINIMUM", "Minimum", "minimum"} -> "minimum"
              [] c \in {"Required", "required"} -> "required" [] c \in {"$REF", "$ref"} -> "$ref"
              [] c \in {"ITEMS", "items"} -> "items" [] c \in {"Enum", "enum"} -> "enum" [] c \in {"CONST", "const"} -> "const"
              [] c \in {"Not", "not"} -> "not" [] c \in {"Properties", "properties"} -> "properties"
              [] c \in {"AllOf", "allOf"} -> "allof" [] c \in {"MaxLength", "maxLength"} -> "maxlength"
              [] c \in {"$Defs", "$defs"} -> "$defs" [] OTHER -> c]
KeywordNames == {"type", "minimum", "required", "$ref", "items", "enum", "const", "not", "properties", "allOf", "maxLength", "$defs"}
ReadAsKeyword(k) ==
  IF DEV_CaseFoldKeys THEN \E kw \in KeywordNames : Lower[kw] = Lower[k]
  ELSE k \in KeywordNames
====
