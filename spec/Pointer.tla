---- MODULE Pointer ----
(***************************************************************************)
(* RFC 6901 JSON Pointer over character sequences (C17).                   *)
(* A reference token is a sequence of one-character strings.               *)
(*   Esc      : "~" -> "~0", "/" -> "~1"                  (RFC 6901 s.3)   *)
(*   Unesc    : first every "~1" -> "/", then every "~0" -> "~" (s.4)      *)
(*   UnescCode: json_pointer.go - ONE left-to-right pass of               *)
(*              strings.NewReplacer("~0","~","~1","/")                    *)
(*   PtrText  : concatenation of "/" Esc(token)                            *)
(*   ParseCode: split at "/" then UnescCode each piece (parseJSONPointer)  *)
(*   IndexOK  : RFC 6901 array index: "0" or digits without leading zero   *)
(*   AtoiOK   : what the code accepts: len>1 && tok[0]='0' rejected, then  *)
(*              strconv.Atoi (optional sign, digits) and a range check     *)
(* Deviation switch DEV_AtoiIndex: the code before the fix accepted "+1",  *)
(* "-0", "+01".  Mutant MUT_UnescapeOrder: "~0" pass before "~1" pass.     *)
(***************************************************************************)
EXTENDS Naturals, Sequences

CONSTANTS DEV_AtoiIndex, MUT_UnescapeOrder

RECURSIVE Esc(_)
Esc(k) == IF k = <<>> THEN <<>>
          ELSE (IF Head(k) = "~" THEN <<"~", "0">> ELSE IF Head(k) = "/" THEN <<"~", "1">> ELSE <<Head(k)>>) \o Esc(Tail(k))

\* replace every occurrence of the two-character sequence <<"~", c>> by r, left to right
RECURSIVE Repl(_, _, _)
Repl(s, c, r) ==
  IF s = <<>> THEN <<>>
  ELSE IF Len(s) >= 2 /\ s[1] = "~" /\ s[2] = c THEN <<r>> \o Repl(SubSeq(s, 3, Len(s)), c, r)
  ELSE <<Head(s)>> \o Repl(Tail(s), c, r)

Unesc(s) == Repl(Repl(s, "1", "/"), "0", "~")

RECURSIVE OnePass(_)
OnePass(s) ==
  IF s = <<>> THEN <<>>
  ELSE IF Len(s) >= 2 /\ s[1] = "~" /\ s[2] = "0" THEN <<"~">> \o OnePass(SubSeq(s, 3, Len(s)))
  ELSE IF Len(s) >= 2 /\ s[1] = "~" /\ s[2] = "1" THEN <<"/">> \o OnePass(SubSeq(s, 3, Len(s)))
  ELSE <<Head(s)>> \o OnePass(Tail(s))

UnescCode(s) == IF MUT_UnescapeOrder THEN Repl(Repl(s, "0", "~"), "1", "/") ELSE OnePass(s)

RECURSIVE PtrText(_)
PtrText(toks) == IF toks = <<>> THEN <<>> ELSE <<"/">> \o Esc(Head(toks)) \o PtrText(Tail(toks))

\* split a character sequence that begins with "/" into the pieces between slashes
RECURSIVE SplitAcc(_, _, _)
SplitAcc(s, cur, acc) ==
  IF s = <<>> THEN Append(acc, cur)
  ELSE IF Head(s) = "/" THEN SplitAcc(Tail(s), <<>>, Append(acc, cur))
  ELSE SplitAcc(Tail(s), Append(cur, Head(s)), acc)
ParseCode(text) ==
  IF text = <<>> THEN <<>>
  ELSE LET pieces == SplitAcc(Tail(text), <<>>, <<>>)
       IN [i \in DOMAIN pieces |-> UnescCode(pieces[i])]

Digits == {"0", "1", "2", "3", "4", "5", "6", "7", "8", "9"}
AllDigits(t) == t # <<>> /\ \A i \in DOMAIN t : t[i] \in Digits
IndexOK(t) == AllDigits(t) /\ (Len(t) > 1 => t[1] # "0")
AtoiOK(t) ==
  IF ~DEV_AtoiIndex THEN IndexOK(t)
  ELSE /\ t # <<>>
       /\ ~(Len(t) > 1 /\ t[1] = "0")
       /\ IF t[1] \in {"+", "-"} THEN AllDigits(Tail(t)) ELSE AllDigits(t)

RECURSIVE Join(_)
Join(cs) == IF cs = <<>> THEN "" ELSE Head(cs) \o Join(Tail(cs))
====
