---- MODULE Reps ----
(***************************************************************************)
(* Go representations of JSON values (C08, C11, C12).                      *)
(*                                                                         *)
(* A represented value is an abstract value (JsonValue.tla) whose nodes    *)
(* carry a representation tag r and the top an optional wrapper list w:    *)
(*   num : r in NumReps[n] (float64, float32, int, int8..uint64, uintptr,  *)
(*         jsonNumber) or "namedInt" / "namedFloat" (defined types)         *)
(*   str : "string" | "named" (a defined string type)                      *)
(*   bool: "bool"     null: "nil"                                          *)
(*   arr : "any" ([]any) | "typed" ([]T) | "array" ([n]T) | "arrayany"     *)
(*   obj : "any" (map[string]any) | "typed" (map[string]T)                 *)
(*         | "namedkey" (map[K]any, K a defined string type)               *)
(*         | "numberkey" (map[json.Number]any)                              *)
(*   w   : sequence over {"ptr", "iface"} applied innermost first          *)
(* Den strips the tags: the JSON value a representation denotes.           *)
(*                                                                         *)
(* L0:  SameJSON(x, y) == Den(x) = Den(y)                                  *)
(* L1:  EqualCode = equalValue of util.go as a kind-directed case analysis *)
(*      (after fix: pointers/interfaces are stepped through, a number only *)
(*      equals a number, slices and arrays are one class, maps compare by  *)
(*      string key whatever the key and element types).                    *)
(*      JsonTypeCode = jsonType of util.go.                                *)
(* Named deviations (the code before the fixes), each must be found by TLC:*)
(*   DEV_EqualKindStrict    kinds must match: ptr vs value, slice vs array *)
(*   DEV_NumberEqualsString json.Number "1" equals the string "1"          *)
(*   DEV_JsonNumberIsString jsonType(json.Number) = "string"               *)
(***************************************************************************)
EXTENDS JsonValue

CONSTANTS DEV_EqualKindStrict, DEV_NumberEqualsString, DEV_JsonNumberIsString

RECURSIVE Den(_)
Den(v) ==
  CASE v.t = "null" -> Null
    [] v.t = "bool" -> Bool(v.b)
    [] v.t = "num"  -> Num(v.n)
    [] v.t = "str"  -> Str(v.s)
    [] v.t = "arr"  -> Arr([i \in DOMAIN v.e |-> Den(v.e[i])])
    [] v.t = "obj"  -> Obj([k \in DOMAIN v.m |-> Den(v.m[k])])

SameJSON(x, y) == Den(x) = Den(y)

Wrap(v) == IF "w" \in DOMAIN v THEN v.w ELSE <<>>

\* reflect.Kind classes as equalValue / jsonType see them
JNReps == {"jsonNumber", "jsonNumberE"}
IntReps == {"int", "int8", "int16", "int32", "int64", "uint", "uint8", "uint16", "uint32", "uint64", "uintptr", "namedInt"}
FloatReps == {"float64", "float32", "namedFloat", "negzero"}
Kind(v) ==
  CASE v.t = "null" -> "invalid"
    [] v.t = "bool" -> "bool"
    [] v.t = "num"  -> IF v.r \in IntReps THEN "int" ELSE IF v.r \in FloatReps THEN "float" ELSE "string"  \* json.Number
    [] v.t = "str"  -> "string"
    [] v.t = "arr"  -> IF v.r \in {"array", "arrayany"} THEN "array" ELSE "slice"
    [] v.t = "obj"  -> "map"

\* jsonNumber(v): numeric kinds and json.Number convert to a rational
IsNumberCode(v) == v.t = "num"

RECURSIVE EqualCode(_, _)
EqualCode(x, y) ==
  \* wrappers: before the fix a pointer only equals a pointer (kinds must match)
  IF DEV_EqualKindStrict /\ (Wrap(x) # <<>>) # (Wrap(y) # <<>>) /\ x.t # "null" /\ y.t # "null" THEN FALSE
  ELSE IF x.t = "null" \/ y.t = "null" THEN x.t = y.t
  ELSE IF IsNumberCode(x) /\ IsNumberCode(y) THEN x.n = y.n
  ELSE IF (IsNumberCode(x) \/ IsNumberCode(y)) /\ ~DEV_NumberEqualsString THEN FALSE
  ELSE IF DEV_NumberEqualsString /\ IsNumberCode(x) # IsNumberCode(y) THEN
       \* json.Number has Kind String: compared as strings with a string
       LET nmb == IF IsNumberCode(x) THEN x ELSE y
           oth == IF IsNumberCode(x) THEN y ELSE x
       IN nmb.r \in JNReps /\ oth.t = "str" /\ NumText[nmb.n] = oth.s
  ELSE IF x.t # y.t THEN FALSE
  ELSE IF DEV_EqualKindStrict /\ Kind(x) # Kind(y) THEN FALSE
  ELSE CASE x.t = "bool" -> x.b = y.b
         [] x.t = "str"  -> x.s = y.s
         [] x.t = "arr"  -> /\ Len(x.e) = Len(y.e)
                            /\ \A i \in DOMAIN x.e : EqualCode(x.e[i], y.e[i])
         [] x.t = "obj"  -> /\ DOMAIN x.m = DOMAIN y.m
                            /\ \A k \in DOMAIN x.m : EqualCode(x.m[k], y.m[k])

\* jsonType of util.go
JsonTypeCode(v) ==
  CASE v.t = "null" -> "null"
    [] v.t = "num"  -> IF v.r \in JNReps
                         THEN (IF DEV_JsonNumberIsString THEN "string" ELSE IF NumIsInt[v.n] THEN "integer" ELSE "number")
                         ELSE IF v.r \in IntReps THEN "integer"
                         ELSE IF NumIsInt[v.n] THEN "integer" ELSE "number"
    [] v.t = "bool" -> "boolean"
    [] v.t = "str"  -> "string"
    [] v.t = "arr"  -> "array"
    [] v.t = "obj"  -> "object"

\* the JSON Schema type of the denoted value
JsonTypeSpec(v) ==
  CASE v.t = "null" -> "null"
    [] v.t = "num"  -> IF NumIsInt[v.n] THEN "integer" ELSE "number"
    [] v.t = "bool" -> "boolean"
    [] v.t = "str"  -> "string"
    [] v.t = "arr"  -> "array"
    [] v.t = "obj"  -> "object"

\* ---- all representations of a plain value ----
NumRepChoice(n, pool) == (NumReps[n] \cap pool)
                          \cup (IF "int" \in NumReps[n] /\ "namedInt" \in pool THEN {"namedInt"} ELSE {})
                          \cup (IF "float64" \in NumReps[n] /\ "namedFloat" \in pool THEN {"namedFloat"} ELSE {})
RECURSIVE RepsOf(_, _, _, _)
\* nr: numeric reps pool; ar: array reps; orr: object reps
RepsOf(v, nr, ar, orr) ==
  CASE v.t = "null" -> {[t |-> "null", r |-> "nil"]}
    [] v.t = "bool" -> {[t |-> "bool", b |-> v.b, r |-> "bool"]}
    [] v.t = "num"  -> {[t |-> "num", n |-> v.n, r |-> rp] : rp \in NumRepChoice(v.n, nr)}
    [] v.t = "str"  -> {[t |-> "str", s |-> v.s, r |-> rp] : rp \in {"string", "named"}}
    [] v.t = "arr"  ->
         LET choices == [i \in DOMAIN v.e |-> RepsOf(v.e[i], nr, ar, orr)]
             seqs == {f \in [DOMAIN v.e -> UNION {choices[i] : i \in DOMAIN v.e}] : \A i \in DOMAIN v.e : f[i] \in choices[i]}
         IN {[t |-> "arr", e |-> f, r |-> rp] : f \in seqs, rp \in ar}
    [] v.t = "obj"  ->
         LET choices == [k \in DOMAIN v.m |-> RepsOf(v.m[k], nr, ar, orr)]
             maps == {f \in [DOMAIN v.m -> UNION {choices[k] : k \in DOMAIN v.m}] : \A k \in DOMAIN v.m : f[k] \in choices[k]}
         IN {[t |-> "obj", m |-> f, r |-> rp] : f \in maps, rp \in orr}

\* interior pointers: every direct member of a container is held through a pointer ([]*T, map[string]*T,
\* []any{&x}); Den ignores wrappers, so the denoted JSON value is unchanged
PtrKids(v) ==
  CASE v.t = "arr" -> [v EXCEPT !.e = [i \in DOMAIN v.e |-> IF v.e[i].t = "null" THEN v.e[i] ELSE v.e[i] @@ [w |-> <<"ptr">>]]]
    [] v.t = "obj" -> [v EXCEPT !.m = [k \in DOMAIN v.m |-> IF v.m[k].t = "null" THEN v.m[k] ELSE v.m[k] @@ [w |-> <<"ptr">>]]]
    [] OTHER -> v
WithWraps(vs, ws) == {IF w = <<>> THEN v ELSE v @@ [w |-> w] : v \in vs, w \in ws}
====
