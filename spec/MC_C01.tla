---- MODULE MC_C01 ----
(***************************************************************************)
(* C01: Validate decides exactly the 2020-12 validity relation.            *)
(* Universe families (CONSTANT Family):                                    *)
(*   F1  scalars  : every <= K-keyword combination of the instance-only    *)
(*                  assertion keywords x all scalar instances              *)
(*   F2  arrays   : array applicators and counts x arrays over 3 leaves    *)
(*   F3  objects  : object applicators and counts x objects over 4 names   *)
(*   F4  logic    : in-place applicators nested over leaf schemas          *)
(*   F5  refs     : $ref/$defs/$anchor incl. recursive schemas             *)
(* TLC checks, for every schema of the family and every instance of the    *)
(* pool, that the code-shaped evaluator (EvalCode!Cv) returns the verdict  *)
(* of the specification-shaped one (Eval!Ev) and that its compressed       *)
(* annotation record denotes exactly the specification's annotation sets.  *)
(* Every state prints one CASE line that the Go harness replays against    *)
(* the real Unmarshal -> Resolve -> Validate.                              *)
(***************************************************************************)
EXTENDS EvalCode, Json

CONSTANTS Family, K

VARIABLES sch, phase, res

vars == <<sch, phase, res>>

Dr == "2020"
U(s) == [docs |-> <<[uri |-> EmptyURI, s |-> s]>>]
Root == Addr(1, <<>>)

\* ------------------------------------------------------------ merge helper
Disjoint(a, b) == /\ DOMAIN a \cap DOMAIN b = {}
                  /\ ~({"type", "types"} \subseteq (DOMAIN a \cup DOMAIN b))
Combos2(A) == {a @@ b : a \in A, b \in A}
Pairs(A)   == {a @@ b : <<a, b>> \in {x \in A \X A : Disjoint(x[1], x[2])}}
Triples(A) == {a @@ b : <<a, b>> \in {x \in Pairs(A) \X A : Disjoint(x[1], x[2])}}

\* ------------------------------------------------------------ F1 scalars
NumOps  == {R_m1, R_0, R_h, R_1, R_2, R_128, R_i32max, R_2p53}
ScalarVals ==
  {Null, Bool(TRUE), Bool(FALSE)}
  \cup {Num(r) : r \in {R_m129, R_m128, R_m2, R_m1h, R_m1, R_mh, R_0, R_q, R_h, R_1, R_1h, R_2, R_2h, R_3, R_4,
                        R_127, R_128, R_255, R_i32max, R_i32max1, R_2p53m1, R_2p53, R_2p63, R_p3, R_p1p2}}
  \cup {Str(x) : x \in {"", "a", "b", "ab", "abc", "aXc", "U_e1", "U_e2", "U_g1", "U_ae"}}
F1Atoms ==
  {[type |-> t] : t \in TypeNames}
  \cup {[types |-> ts] : ts \in {<<>>, <<"integer", "string">>, <<"null", "number">>, <<"boolean", "integer">>}}
  \cup {[enum |-> e] : e \in {<<>>, <<Num(R_1)>>, <<Null, Str("a")>>, <<Num(R_2), Str(""), Bool(FALSE)>>, <<Str("U_e1"), Num(R_h)>>}}
  \cup {[const |-> c] : c \in {Null, Num(R_0), Num(R_2p53), Str("U_e2"), Bool(TRUE), Str("")}}
  \cup {[multipleOf |-> r] : r \in {R_q, R_h, R_1, R_1h, R_2, R_3}}
  \cup {[minimum |-> r] : r \in NumOps} \cup {[maximum |-> r] : r \in NumOps}
  \cup {[exclusiveMinimum |-> r] : r \in NumOps} \cup {[exclusiveMaximum |-> r] : r \in NumOps}
  \cup {[minLength |-> k] : k \in 0..3} \cup {[maxLength |-> k] : k \in 0..3}
  \cup {[pattern |-> p] : p \in {"^a", "b$", "a.c", "^[ab]+$", "U_e1", "^.$", "^..$"}}
\* multipleOf only sees instances on which the documented float arithmetic is exact
F1Ok(s) == TRUE
F1Schemas == IF K = 1 THEN F1Atoms ELSE IF K = 2 THEN F1Atoms \cup Pairs(F1Atoms) ELSE F1Atoms \cup Pairs(F1Atoms) \cup Triples(F1Atoms)
F1Insts == ScalarVals

\* ------------------------------------------------------------ selection
Schemas == CASE Family = "F1" -> F1Schemas
InstSet == CASE Family = "F1" -> F1Insts

\* instances as a sequence (fixed enumeration order for the CASE lines)
RECURSIVE SetToSeq(_)
SetToSeq(S) == IF S = {} THEN <<>> ELSE LET x == CHOOSE y \in S : TRUE IN <<x>> \o SetToSeq(S \ {x})
Insts == SetToSeq(InstSet)

\* multipleOf is only specified on the dyadic / 2^53 domain
InDomain(s, v) == (v.t = "num" /\ Has(s, "multipleOf")) => v.n \in NumSmall

Init == /\ sch \in Schemas
        /\ phase = "new"
        /\ res = <<>>

Next == /\ phase = "new"
        /\ phase' = "done"
        /\ sch' = sch
        /\ res' = [i \in DOMAIN Insts |->
                     IF InDomain(sch, Insts[i]) THEN (IF Ev(U(sch), Dr, Root, Insts[i], <<>>).ok THEN "T" ELSE "F") ELSE "x"]

Spec == Init /\ [][Next]_vars

\* L1 (code-shaped) refines L0 (specification-shaped): same verdict, and on
\* success the compressed annotations denote the specification's sets.
Refines ==
  phase = "done" =>
    \A i \in DOMAIN Insts : res[i] # "x" =>
      LET c == Cv(U(sch), Dr, Root, Insts[i], <<>>)
          e == Ev(U(sch), Dr, Root, Insts[i], <<>>)
      IN /\ c.ok = (res[i] = "T")
         /\ c.ok => /\ DenItems(c.anns, Insts[i]) = e.items \cap (IF Insts[i].t = "arr" THEN 1..Len(Insts[i].e) ELSE {})
                    /\ DenProps(c.anns, Insts[i]) = e.props

Emit == phase = "done" => PrintT(<<"CASE", ToJson([s |-> sch, exp |-> res])>>)

ASSUME PrintT(<<"INSTS", ToJson(Insts)>>)
====
