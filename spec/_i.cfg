SPECIFICATION Spec
CONSTANTS
  Family = "X"
  K = 2
  CheckKnown = FALSE
INVARIANTS Sound SpecEq Emit
CHECK_DEADLOCK FALSE
