SPECIFICATION Spec
CONSTANTS
  Family = "O"
  K = 1
  CheckKnown = FALSE
INVARIANTS Sound SpecEq Emit
CHECK_DEADLOCK FALSE
