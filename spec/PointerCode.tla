---- MODULE PointerCode ----
(***************************************************************************)
(* L1: json_pointer.go - parseJSONPointer + dereferenceJSONPointer +       *)
(* lookupSchemaField - over ATOM sequences: an atom is a one-character     *)
(* string or a whole keyword name ("allOf"), so that a pointer text such   *)
(* as <<"/", "allOf", "/", "1">> can be split, unescaped and joined        *)
(* without exploding strings.                                              *)
(*   DerefCode(s, text) = [st |-> "ok", p |-> path] | [st |-> "err"]       *)
(*                       | [st |-> "nil"]  (a nil *Schema returned without *)
(*                         error: what the code did before fix ebb3710)    *)
(* Deviation switch DEV_NilTarget (the code before the fix) and seeded     *)
(* mutations MUT_Pointer (each refuted by TLC in the selftest):            *)
(*   "lazyUnescape"    a map key is looked up as written first, unescaped  *)
(*                     only on a miss                                      *)
(*   "dashAnywhere"    the token "-" is refused wherever it stands         *)
(*   "emptyIndexZero"  an empty token indexes element 0 of an array        *)
(*   "defsUnion"       "$defs" and "definitions" name whichever is set     *)
(***************************************************************************)
EXTENDS Pointer, SchemaDoc

CONSTANTS DEV_NilTarget, MUT_Pointer

\* the JSON names of the Schema fields that hold subschemas (schemaFieldMap restricted to them);
\* every other name is either another field ("type", "title": not a schema -> error at the end) or no field at all
SchemaNames == {"$defs", "definitions", "properties", "patternProperties", "dependentSchemas", "dependencies",
                "prefixItems", "allOf", "anyOf", "oneOf", "items", "additionalItems", "contains", "unevaluatedItems",
                "additionalProperties", "propertyNames", "unevaluatedProperties", "not", "if", "then", "else", "contentSchema"}
\* lookupSchemaField
FieldOf(name, s) ==
  CASE name = "items" -> IF "items" \in DOMAIN s THEN "items" ELSE "itemsArray"        \* Items if set, else ItemsArray
    [] name = "dependencies" -> "depSchemas"
    [] name = "$defs" -> IF MUT_Pointer = "defsUnion" /\ "defs" \notin DOMAIN s /\ "definitions" \in DOMAIN s THEN "definitions" ELSE "defs"
    [] name = "definitions" -> IF MUT_Pointer = "defsUnion" /\ "definitions" \notin DOMAIN s /\ "defs" \in DOMAIN s THEN "defs" ELSE "definitions"
    [] OTHER -> name

\* decimal value of a digit sequence (only called on IndexOK tokens of at most 4 digits; longer ones are out of range)
DigitVal(c) == CASE c = "0" -> 0 [] c = "1" -> 1 [] c = "2" -> 2 [] c = "3" -> 3 [] c = "4" -> 4
                 [] c = "5" -> 5 [] c = "6" -> 6 [] c = "7" -> 7 [] c = "8" -> 8 [] c = "9" -> 9
RECURSIVE NatOf(_, _)
NatOf(t, acc) == IF t = <<>> THEN acc ELSE NatOf(Tail(t), acc * 10 + DigitVal(Head(t)))

Err == [st |-> "err"]
RECURSIVE Walk(_, _, _)
\* pieces: the raw pieces between slashes (still escaped); s: the schema reached; path: how
Walk(s, pieces, path) ==
  IF pieces = <<>> THEN [st |-> "ok", p |-> path]
  ELSE LET tok  == UnescCode(Head(pieces))
           name == Join(tok)
           rest == Tail(pieces)
       IN IF MUT_Pointer = "dashAnywhere" /\ \E i \in DOMAIN pieces : pieces[i] = <<"-">> THEN Err
          ELSE IF "bool" \in DOMAIN s THEN     \* true is the zero Schema, false is {"not": {}}
            (IF name \in SchemaNames /\ rest = <<>> /\ FieldOf(name, s) \in SingleKW /\ ~(name = "not" /\ ~s.bool)
               THEN (IF DEV_NilTarget THEN [st |-> "nil"] ELSE Err) ELSE Err)
          ELSE IF name \notin SchemaNames THEN Err
          ELSE LET f == FieldOf(name, s)
               IN IF f \in SingleKW THEN
                    (IF f \in DOMAIN s THEN Walk(s[f], rest, Append(path, SegK(f)))
                     ELSE IF rest = <<>> /\ DEV_NilTarget THEN [st |-> "nil"] ELSE Err)
                  ELSE IF rest = <<>> THEN Err                       \* "does not refer to a schema, but to a slice / map"
                  ELSE LET nxt  == Head(rest)
                           more == Tail(rest)
                       IN IF f \in SeqKW THEN
                            (LET t == UnescCode(nxt)
                                 len == IF f \in DOMAIN s THEN Len(s[f]) ELSE 0
                             IN IF t = <<"-">> THEN Err
                                ELSE IF t = <<>> /\ MUT_Pointer = "emptyIndexZero" THEN
                                       (IF len >= 1 THEN Walk(s[f][1], more, Append(path, SegI(f, 1))) ELSE Err)
                                ELSE IF ~AtoiOK(t) \/ Len(t) > 4 THEN Err
                                ELSE LET big == 99999
                                         n == IF t[1] = "-" THEN (IF NatOf(Tail(t), 0) = 0 THEN 0 ELSE big)
                                              ELSE IF t[1] = "+" THEN NatOf(Tail(t), 0) ELSE NatOf(t, 0)
                                     IN IF n < len THEN Walk(s[f][n + 1], more, Append(path, SegI(f, n + 1))) ELSE Err)
                          ELSE \* a map
                            LET asWritten == Join(nxt)
                                key == Join(UnescCode(nxt))
                                m == IF f \in DOMAIN s THEN s[f] ELSE <<>>
                                k == IF MUT_Pointer = "lazyUnescape" /\ asWritten \in DOMAIN m THEN asWritten ELSE key
                            IN IF k \in DOMAIN m THEN Walk(m[k], more, Append(path, SegN(f, k))) ELSE Err

\* parseJSONPointer: "" is the whole document; otherwise the text must begin with "/"
DerefCode(s, text) ==
  IF text = <<>> THEN [st |-> "ok", p |-> <<>>]
  ELSE IF Head(text) # "/" THEN Err
  ELSE Walk(s, SplitAcc(Tail(text), <<>>, <<>>), <<>>)

\* the text of the pointer to an abstract path (keyword names as atoms, keys as character sequences)
JsonName(f) == CASE f = "defs" -> "$defs" [] f = "depSchemas" -> "dependencies" [] f = "itemsArray" -> "items" [] OTHER -> f
Digit(i) == CASE i = 0 -> "0" [] i = 1 -> "1" [] i = 2 -> "2" [] i = 3 -> "3" [] OTHER -> "9"
====
