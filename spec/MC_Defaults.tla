---- MODULE MC_Defaults ----
EXTENDS Defaults, Json, SequencesExt

CONSTANTS K

VARIABLES cs, phase
vars == <<cs, phase>>

IntS == [type |-> "integer"]
DefVals == {Null, Num(R_1), Str("a"), Bool(FALSE), EmptyArr, EmptyObj, Obj([x |-> Num(R_1)])}
\* leaf subschemas
Leaves == {IntS, TrueS, FalseS, [type |-> "string"]}
          \cup {[default |-> d] : d \in DefVals}
          \cup {[type |-> "integer", default |-> d] : d \in {Num(R_1), Str("a"), Null}}
\* object subschemas with nested defaults, with / without required
Lvl1 == {[type |-> "object", properties |-> [x |-> l]] : l \in Leaves}
        \cup {[properties |-> [x |-> l], required |-> <<"x">>] : l \in {[default |-> Num(R_1)], IntS}}
        \cup {[properties |-> [x |-> [default |-> Num(R_1)], y |-> [default |-> Str("a")]], required |-> <<"y">>]}
        \cup {[properties |-> [x |-> [default |-> Num(R_2)]], default |-> d] : d \in {EmptyObj, Obj([x |-> Num(R_1)]), Obj([z |-> Null]), Num(R_1)}}
Lvl2 == {[properties |-> [n |-> l]] : l \in Lvl1}
        \cup {[properties |-> [n |-> l], required |-> <<"n">>] : l \in {[properties |-> [x |-> [default |-> Num(R_1)]]]}}
Subs == IF K >= 2 THEN Leaves \cup Lvl1 \cup Lvl2 ELSE Leaves \cup Lvl1
Lvl3 == {[properties |-> [n |-> l], default |-> d] : l \in Lvl1, d \in {EmptyObj, Obj([n |-> EmptyObj]), Null}}
        \cup {[properties |-> [n |-> [properties |-> [n |-> l]]]] : l \in Lvl1}
Pairs3 == IF K >= 3 THEN {[properties |-> [a |-> s1, b |-> s2]] : s1 \in Lvl1 \cup Lvl2, s2 \in Leaves \cup Lvl1}
                         \cup {[properties |-> [a |-> s]] : s \in Lvl3}
                         \cup {[properties |-> [a |-> s1, c |-> s2], required |-> r] : s1 \in Lvl2, s2 \in Lvl1, r \in {<<"a">>, <<"c">>, <<"a", "c">>}}
          ELSE {}
Roots(z) == UNION {Pairs3, {[properties |-> [a |-> s]] : s \in Subs}}
            \cup {[properties |-> [a |-> s, b |-> [default |-> Bool(TRUE)]], required |-> r] : s \in Lvl1, r \in {<<>>, <<"a">>, <<"b">>}}
            \cup {TrueS, FalseS, [default |-> Num(R_1)], [items |-> [properties |-> [a |-> [default |-> Num(R_1)]]]]}
            \* siblings that each receive a CONTAINER (an object default, a container holding nested defaults, a present
            \* object completed in place): every one is built on its own, nothing of one sibling shows up in another
            \cup {[properties |-> [a |-> s1, b |-> s2, c |-> s3]] :
                    s1 \in {[default |-> Obj([x |-> Num(R_1)])], [properties |-> [x |-> [default |-> Num(R_2)]]]},
                    s2 \in {[default |-> Obj([y |-> Num(R_2)])], [default |-> EmptyObj, properties |-> [y |-> [default |-> Str("a")]]]},
                    s3 \in {[default |-> Obj([z |-> Null])], [properties |-> [n |-> [properties |-> [x |-> [default |-> Num(R_1)]]]]]}}
\* instances: every subset of the properties present, non-objects at any position
Insts == <<EmptyObj, Obj([a |-> EmptyObj]), Obj([a |-> Num(R_3)]), Obj([a |-> Null]), Obj([a |-> Obj([x |-> Num(R_3)])]),
           Obj([a |-> Obj([n |-> EmptyObj])]), Obj([a |-> Obj([n |-> Obj([x |-> Str("a")])])]), Obj([a |-> Obj([n |-> Num(R_1)])]),
           Obj([b |-> Num(R_1)]), Obj([a |-> EmptyObj, b |-> Bool(FALSE)]), Obj([c |-> Num(R_1)]), Obj([a |-> EmptyArr]),
           Num(R_1), Null, Arr(<<EmptyObj>>), Obj([a |-> Obj([y |-> Num(R_1)])]),
           Obj([b |-> Obj([q |-> Str("a")])]), Obj([a |-> Obj([q |-> Num(R_1)]), c |-> EmptyObj])>>

Init == cs \in Roots(0) /\ phase = "new"
Next == phase = "new" /\ phase' = "done" /\ cs' = cs
Spec == Init /\ [][Next]_vars

LawsHold == phase = "done" => \A i \in DOMAIN Insts : Laws(cs, Insts[i])

Emit == phase = "done" =>
  PrintT(<<"CASE", ToJson([s |-> cs, after |-> [i \in DOMAIN Insts |-> Apply(cs, Insts[i])],
                           vd |-> IF DefaultsValid(cs) THEN "ok" ELSE "err"])>>)
ASSUME PrintT(<<"INSTS", ToJson(Insts)>>)
====
