---- MODULE MC_Defaults ----
EXTENDS Defaults, Json, SequencesExt

CONSTANTS K

VARIABLES cs, phase
vars == <<cs, phase>>

IntS == [type |-> "integer"]
DefVals == {Null, Num(R_1), Str("a"), Bool(FALSE), EmptyArr, EmptyObj, Obj([x |-> Num(R_1)])}
\* leaf subschemas
Leaves == {IntS, TrueS, FalseS, [type |-> "string"]}
          \cup {[default |-> d] : d \in DefVals}
          \cup {[type |-> "integer", default |-> d] : d \in {Num(R_1), Str("a"), Null}}
\* object subschemas with nested defaults, with / without required
Lvl1 == {[type |-> "object", properties |-> [x |-> l]] : l \in Leaves}
        \cup {[properties |-> [x |-> l], required |-> <<"x">>] : l \in {[default |-> Num(R_1)], IntS}}
        \cup {[properties |-> [x |-> [default |-> Num(R_1)], y |-> [default |-> Str("a")]], required |-> <<"y">>]}
        \cup {[properties |-> [x |-> [default |-> Num(R_2)]], default |-> d] : d \in {EmptyObj, Obj([x |-> Num(R_1)]), Obj([z |-> Null]), Num(R_1)}}
Lvl2 == {[properties |-> [n |-> l]] : l \in Lvl1}
        \cup {[properties |-> [n |-> l], required |-> <<"n">>] : l \in {[properties |-> [x |-> [default |-> Num(R_1)]]]}}
Subs == IF K >= 2 THEN Leaves \cup Lvl1 \cup Lvl2 ELSE Leaves \cup Lvl1
Lvl3 == {[properties |-> [n |-> l], default |-> d] : l \in Lvl1, d \in {EmptyObj, Obj([n |-> EmptyObj]), Null}}
        \cup {[properties |-> [n |-> [properties |-> [n |-> l]]]] : l \in Lvl1}
Pairs3 == IF K >= 3 THEN {[properties |-> [a |-> s1, b |-> s2]] : s1 \in Lvl1 \cup Lvl2, s2 \in Leaves \cup Lvl1}
                         \cup {[properties |-> [a |-> s]] : s \in Lvl3}
                         \cup {[properties |-> [a |-> s1, c |-> s2], required |-> r] : s1 \in Lvl2, s2 \in Lvl1, r \in {<<"a">>, <<"c">>, <<"a", "c">>}}
          ELSE {}
Roots(z) == UNION {Pairs3, {[properties |-> [a |-> s]] : s \in Subs}}
            \cup {[properties |-> [a |-> s, b |-> [default |-> Bool(TRUE)]], required |-> r] : s \in Lvl1, r \in {<<>>, <<"a">>, <<"b">>}}
            \cup {TrueS, FalseS, [default |-> Num(R_1)], [items |-> [properties |-> [a |-> [default |-> Num(R_1)]]]]}
            \* a default on a REQUIRED property is never applied, but it is a default in the schema tree all the same:
            \* ValidateDefaults checks it (valid and invalid ones, at the root and below)
            \cup {[properties |-> [a |-> IntS @@ [default |-> d]], required |-> <<"a">>] : d \in {Str("a"), Num(R_1), Null}}
            \cup {[properties |-> [a |-> [type |-> "object", required |-> <<"x">>, properties |-> [x |-> [type |-> "string", default |-> d]]]]] :
                    d \in {Str("a"), Num(R_1)}}
            \cup {[properties |-> [a |-> [required |-> <<"x", "n">>, properties |-> [x |-> TrueS, n |-> [properties |-> [x |-> IntS @@ [default |-> Str("a")]]]]]],
                   required |-> <<"a">>]}
            \* "never fills a required property" on subschemas whose declared type is NOT object (the walk over properties
            \* does not look at type; neither does the rule about required)
            \cup {[properties |-> [a |-> [properties |-> [x |-> [default |-> Num(R_1)], y |-> [default |-> Num(R_2)]], required |-> <<"x">>] @@ t]] :
                    t \in {[type |-> "string"], [types |-> <<"array", "null">>], [type |-> "object"], [types |-> <<"object", "null">>], <<>>}}
            \* three levels BELOW a subschema that declares its own default: default -> (no default) -> default;
            \* the inserted default is completed with containers for the default-less level too
            \cup {[properties |-> [a |-> [default |-> d, properties |-> [n |-> [properties |-> [x |-> [default |-> Num(R_2)]]]]]]] :
                    d \in {Obj([y |-> Num(R_1)]), EmptyObj, Obj([n |-> EmptyObj])}}
            \cup {[default |-> EmptyObj, properties |-> [a |-> [properties |-> [n |-> [properties |-> [x |-> [default |-> Num(R_2)]]]]]]],
                  [properties |-> [a |-> [default |-> Obj([y |-> Num(R_1)]),
                                          properties |-> [n |-> [properties |-> [n |-> [properties |-> [x |-> [default |-> Str("a")]]]]]]]]]}
            \* siblings that each receive a CONTAINER (an object default, a container holding nested defaults, a present
            \* object completed in place): every one is built on its own, nothing of one sibling shows up in another
            \cup {[properties |-> [a |-> s1, b |-> s2, c |-> s3]] :
                    s1 \in {[default |-> Obj([x |-> Num(R_1)])], [properties |-> [x |-> [default |-> Num(R_2)]]]},
                    s2 \in {[default |-> Obj([y |-> Num(R_2)])], [default |-> EmptyObj, properties |-> [y |-> [default |-> Str("a")]]]},
                    s3 \in {[default |-> Obj([z |-> Null])], [properties |-> [n |-> [properties |-> [x |-> [default |-> Num(R_1)]]]]]}}
\* instances: every subset of the properties present, non-objects at any position
Insts == <<EmptyObj, Obj([a |-> EmptyObj]), Obj([a |-> Num(R_3)]), Obj([a |-> Null]), Obj([a |-> Obj([x |-> Num(R_3)])]),
           Obj([a |-> Obj([n |-> EmptyObj])]), Obj([a |-> Obj([n |-> Obj([x |-> Str("a")])])]), Obj([a |-> Obj([n |-> Num(R_1)])]),
           Obj([b |-> Num(R_1)]), Obj([a |-> EmptyObj, b |-> Bool(FALSE)]), Obj([c |-> Num(R_1)]), Obj([a |-> EmptyArr]),
           Num(R_1), Null, Arr(<<EmptyObj>>), Obj([a |-> Obj([y |-> Num(R_1)])]),
           Obj([b |-> Obj([q |-> Str("a")])]), Obj([a |-> Obj([q |-> Num(R_1)]), c |-> EmptyObj])>>

\* roots that refer to a document served by the Loader.  The remote document is NOT part of the root schema tree:
\* its own defaults (valid or not) and its $dynamicRef play no part in ValidateDefaults, and ApplyDefaults does not
\* follow the reference; a default declared BESIDE the reference in the root is validated through it.
RootURI == URI("http", "h1", TRUE, <<"root.json">>)
RemURI  == URI("http", "h1", TRUE, <<"r.json">>)
RemRef  == Ref(RelRef(<<"r.json">>), FragNone)
RemDocs == {IntS, IntS @@ [default |-> Str("a")], IntS @@ [default |-> Num(R_1)],
            [properties |-> [x |-> [default |-> Num(R_1), type |-> "string"]]],
            [defs |-> [t |-> [dynamicAnchor |-> "n", type |-> "integer"]], dynamicRef |-> LocalRef(FragName("n"))]}
RemRoots == {[properties |-> [a |-> [ref |-> RemRef]]],
             [properties |-> [a |-> [ref |-> RemRef, default |-> Num(R_1)]]],
             [properties |-> [a |-> [ref |-> RemRef, default |-> Str("a")]]],
             [properties |-> [a |-> [ref |-> RemRef, default |-> EmptyObj]]],
             [properties |-> [a |-> [default |-> Num(R_1)]], defs |-> [u |-> [ref |-> RemRef]]],
             [properties |-> [a |-> [type |-> "object", properties |-> [x |-> [allOf |-> <<[ref |-> RemRef]>>, default |-> Num(R_1)]]]]]}
RemCases == {[remcase |-> TRUE, s |-> r, rem |-> d] : r \in RemRoots, d \in RemDocs}
IsRem(c) == "remcase" \in DOMAIN c
SchemaOf(c) == IF IsRem(c) THEN c.s ELSE c
UnivOf(c) == IF IsRem(c) THEN [docs |-> <<[uri |-> RootURI, s |-> c.s], [uri |-> RemURI, s |-> c.rem]>>] ELSE Single(c)
Init == cs \in Roots(0) \cup RemCases /\ phase = "new"
Next == phase = "new" /\ phase' = "done" /\ cs' = cs
Spec == Init /\ [][Next]_vars

LawsHold == phase = "done" => \A i \in DOMAIN Insts : Laws(SchemaOf(cs), Insts[i])

Emit == phase = "done" =>
  PrintT(<<"CASE", ToJson((IF IsRem(cs) THEN [rem |-> cs.rem, rootURI |-> RootURI, remURI |-> RemURI] ELSE <<>>) @@
                          [s |-> SchemaOf(cs), after |-> [i \in DOMAIN Insts |-> Apply(SchemaOf(cs), Insts[i])],
                           vd |-> IF DefaultsValidU(UnivOf(cs)) THEN "ok" ELSE "err"])>>)
ASSUME PrintT(<<"INSTS", ToJson(Insts)>>)
====
