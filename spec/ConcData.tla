---- MODULE ConcData ----
(* Default scenario data (overwritten in the work directory by the harness's
   record phase with programs recorded from real Validate calls).
   A program is the frame-event sequence of one Validate call:
     [e |-> "in", n |-> node, dyn |-> anchor or ""]   enter node n (push); if dyn # "" the
                                                      frame performs a dynamic-anchor lookup
     [e |-> "out"]                                    leave the frame (pop)
   declares[n] = set of dynamic anchors declared by the resource of node n. *)
EXTENDS Naturals, Sequences, TLC
Scenarios == <<
  [id |-> 1,
   p1 |-> <<[e |-> "in", n |-> "root", dyn |-> ""], [e |-> "in", n |-> "r1", dyn |-> ""], [e |-> "in", n |-> "r2", dyn |-> "n"],
            [e |-> "in", n |-> "t1", dyn |-> ""], [e |-> "out"], [e |-> "out"], [e |-> "out"], [e |-> "out"]>>,
   p2 |-> <<[e |-> "in", n |-> "root", dyn |-> ""], [e |-> "in", n |-> "r2", dyn |-> "n"], [e |-> "in", n |-> "t2", dyn |-> ""],
            [e |-> "out"], [e |-> "out"], [e |-> "out"]>>,
   declares |-> [root |-> {}, r1 |-> {"n"}, r2 |-> {"n"}, t1 |-> {"n"}, t2 |-> {"n"}]]
>>
====
