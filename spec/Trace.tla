---- MODULE Trace ----
(***************************************************************************)
(* Trace validation (code -> spec) of the evaluator: executions of the     *)
(* REAL Validate, recorded through the verif frame hook (one event per     *)
(* frame entry and exit), are checked against the specification.           *)
(*                                                                         *)
(* traces.ndjson holds one case per line:                                  *)
(*   [u    universe abstracted from the real documents (Resolve.tla)       *)
(*    dr   "2020" | "d7"                                                   *)
(*    vals abstract values of the instances seen by the frames             *)
(*    ev   << [e |-> "in", d |-> doc, p |-> path, v |-> index into vals],  *)
(*            [e |-> "out", ok |-> BOOLEAN], ... >>                        *)
(*    want "T" | "F" | "?"  the verdict an independent source expects for  *)
(*         the root frame (the official test suite), "?" if none]          *)
(* The machine keeps ITS OWN stack, built from the nesting of the events:  *)
(* the dynamic scope handed to L0 at a frame is the sequence of resources  *)
(* of the frames below it - never read from the log, so a leaked or        *)
(* garbled scope in the code cannot be taken as input and accepted.        *)
(*   Enter  push the frame                                                 *)
(*   Exit   enabled only if the logged verdict is Ev(L0) at that address,  *)
(*          instance and scope; pops                                       *)
(* A trace the specification cannot follow stops the machine: TLC reports  *)
(* the deadlock with (ci, ei) = the case and event that were refused.      *)
(* SpecDoubt: the root verdict L0 computes differs from the independent    *)
(* expectation - then the SPEC (or the abstraction) is in doubt and the    *)
(* case is set aside, it is never a code verdict.                          *)
(***************************************************************************)
EXTENDS Eval, Json, TLC

Cases == ndJsonDeserialize("traces.ndjson")

VARIABLES ci, ei, stack, doubt
tvars == <<ci, ei, stack, doubt>>

C == Cases[ci]
E == C.ev[ei]
ScopeOf(st) == [i \in DOMAIN st |-> ResAddr(C.u, C.dr, st[i].a)]

TInit == ci = 1 /\ ei = 1 /\ stack = <<>> /\ doubt = {}

Enter ==
  /\ ci <= Len(Cases) /\ ei <= Len(C.ev) /\ E.e = "in"
  /\ stack' = Append(stack, [a |-> Addr(E.d, E.p), v |-> E.v])
  /\ ei' = ei + 1 /\ UNCHANGED <<ci, doubt>>

Exit ==
  /\ ci <= Len(Cases) /\ ei <= Len(C.ev) /\ E.e = "out" /\ stack # <<>>
  /\ LET top == stack[Len(stack)]
         below == SubSeq(stack, 1, Len(stack) - 1)
         l0 == Ev(C.u, C.dr, top.a, C.vals[top.v], ScopeOf(below)).ok
         isRoot == Len(stack) = 1
         doubtful == isRoot /\ C.want # "?" /\ l0 # (C.want = "T")
     IN /\ (doubtful \/ E.ok = l0)                 \* the code's frame verdict is the specification's
        /\ doubt' = IF doubtful THEN doubt \cup {ci} ELSE doubt
        /\ stack' = below
  /\ ei' = ei + 1 /\ UNCHANGED ci

NextCase ==
  /\ ci <= Len(Cases) /\ ei > Len(C.ev) /\ stack = <<>>
  /\ ci' = ci + 1 /\ ei' = 1 /\ UNCHANGED <<stack, doubt>>

Finished == ci > Len(Cases) /\ UNCHANGED tvars

TNext == Enter \/ Exit \/ NextCase \/ Finished
TraceSpec == TInit /\ [][TNext]_tvars

\* reported at the end: the cases set aside as spec doubt
Report == (ci > Len(Cases)) => PrintT(<<"DOUBT", ToJson([cases |-> doubt, n |-> Len(Cases)])>>)
====
