#!/bin/bash
# tools/tryseed.sh <seed dir name under seeded/> <check> [tier]: apply an archived seed to /repo, run one check, undo
S=$1; C=$2; T=${3:-quick}
git -C /repo apply /verif/seeded/$S/patch.diff || exit 3
cd /verif; OUT=$(./check $C --tier $T 2>&1); RC=$?
git -C /repo checkout -- .
echo "rc=$RC violations=$(echo "$OUT" | grep -c '^VIOLATION')"
echo "$OUT" | grep '^violation:' | head -${N:-3} | cut -c1-${W:-400}
[ $RC -eq 2 ] && echo "$OUT" | tail -8 | cut -c1-300
git -C /repo status --short
rm -rf /verif/replays
