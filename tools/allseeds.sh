#!/bin/bash
# tools/allseeds.sh [-j N] [pattern]: every archived seeded change, each with the quick check of its own property.
# Default (no -j): applied to /repo in turn and undone - the registered commands exactly as registered.
# With -j N: each seed gets a scratch worktree of /repo HEAD under /tmp/rg and the check is pointed at it
# (VERIF_TOOLING_REPO), N at a time; /repo and evidence/ are not touched.
# One line per seed; a seed that is not caught (rc != 1) is a regression of the checks.
J=0
if [ "$1" = "-j" ]; then J=$2; shift 2; fi
cd /verif
one_inplace() {
  d=$1; s=$(basename $d); p=${s:0:3}
  if ! git -C /repo apply --check /verif/$d/patch.diff 2>/dev/null; then echo "$s: patch no longer applies"; return; fi
  git -C /repo apply /verif/$d/patch.diff
  OUT=$(./check $p 2>&1); RC=$?
  git -C /repo checkout -- .
  echo "$s: check=$p rc=$RC violations=$(echo "$OUT" | grep -c '^VIOLATION')"
}
one_scratch() {
  d=$1; s=$(basename $d); p=${s:0:3}; wt=/tmp/rg/$s
  rm -rf $wt; git -C /repo worktree add -q --detach $wt HEAD 2>/dev/null || { echo "$s: worktree failed"; return; }
  if ! git -C $wt apply /verif/$d/patch.diff 2>/dev/null; then echo "$s: patch no longer applies"; git -C /repo worktree remove --force $wt; return; fi
  OUT=$(VERIF_TOOLING_REPO=$wt VERIF_TOOLING_OUT=/tmp/rg/out.$s ./check $p 2>&1); RC=$?
  git -C /repo worktree remove --force $wt; rm -rf /tmp/rg/out.$s
  echo "$s: check=$p rc=$RC violations=$(echo "$OUT" | grep -c '^VIOLATION')"
}
export -f one_inplace one_scratch
if [ "$J" -gt 0 ]; then
  mkdir -p /tmp/rg
  ls -d seeded/${1:-C*}/ | while read d; do [ -f $d/patch.diff ] && echo $d; done | xargs -P $J -I{} bash -c 'one_scratch {}'
  git -C /repo worktree prune; rmdir /tmp/rg 2>/dev/null
else
  for d in seeded/${1:-C*}/; do [ -f $d/patch.diff ] || continue; one_inplace $d; done
  git -C /repo status --short
  rm -rf /verif/replays
fi
