#!/bin/bash
# tools/allseeds.sh [pattern]: every archived seed applied to /repo in turn, its own property's quick check run, undone.
# Prints one line per seed; a seed that is not caught is a regression of the checks.
cd /verif
for d in seeded/${1:-C*}/; do
  s=$(basename $d); p=${s:0:3}
  [ -f $d/patch.diff ] || continue
  if ! git -C /repo apply --check /verif/$d/patch.diff 2>/dev/null; then echo "$s: patch no longer applies"; continue; fi
  git -C /repo apply /verif/$d/patch.diff
  OUT=$(./check $p 2>&1); RC=$?
  git -C /repo checkout -- .
  echo "$s: check=$p rc=$RC violations=$(echo "$OUT" | grep -c '^VIOLATION')"
done
git -C /repo status --short
rm -rf /verif/replays
