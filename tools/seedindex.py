#!/usr/bin/env python3
"""Regenerates seeded/INDEX.md from the meta.json files."""
import json, os
root = os.path.join(os.path.dirname(os.path.abspath(__file__)), "..", "seeded")
rows = []
for d in sorted(os.listdir(root)):
    mp = os.path.join(root, d, "meta.json")
    if not os.path.isfile(mp):
        continue
    m = json.load(open(mp))
    det = m.get("detection", {})
    summ = " ".join(str(m.get("summary", "")).split())[:230].replace("|", "/")
    rows.append("| %s | %s | %s | %s |" % (d, summ, ", ".join(det.get("detected_by", [])) or "?", (det.get("strengthened") or "–").replace("|", "/")))
with open(os.path.join(root, "INDEX.md"), "w") as f:
    f.write("# Seeded changes and which checks catch them\n\nEach directory holds patch.diff, the demonstration test and meta.json. "
            "All were confirmed with tools/seedcheck.sh.\n\n| seed | change | caught by | check strengthened because of it |\n|---|---|---|---|\n")
    f.write("\n".join(rows) + "\n")
print(len(rows), "seeds")
