#!/bin/bash
# tools/seedcheck.sh <ID> <dir with patch.diff, seed_demo_test.go, meta.json> [checks to run, default <ID>]
# 1. confirms the seeded change in a scratch worktree (suite passes, demo fails with it, passes without)
# 2. runs the checks against the change and prints which raised a VIOLATION.
#    Default: the change is applied to /repo and undone (the registered commands as registered).
#    SCRATCH=1: the checks are pointed at the scratch worktree (VERIF_TOOLING_REPO), /repo is not touched, so
#    several seedchecks can run side by side.
set -u
ID=$1; SRC=$2; shift 2; CHECKS=${*:-${ID:0:3}}
export GOFLAGS=-mod=mod GOPROXY=off GOSUMDB=off GOTOOLCHAIN=local
WT=/tmp/sv/$ID.$$
mkdir -p /tmp/sv
git -C /repo worktree add -q --detach $WT HEAD || exit 3
cleanup() { git -C /repo worktree remove --force $WT 2>/dev/null; rm -rf /tmp/sv/out.$ID.$$; }
trap cleanup EXIT
( cd $WT && git apply $SRC/patch.diff ) || { echo "CONFIRM patch does not apply"; exit 3; }
cp $SRC/seed_demo_test.go $WT/jsonschema/seed_demo_test.go
cd $WT
go build ./... || { echo "CONFIRM does-not-compile"; exit 3; }
SUITE=$(go test -vet=off -count=1 -skip 'TestSeedDemo' ./... 2>&1 | tail -1)
DEMO_WITH=$(go test -vet=off -count=1 -race -run 'TestSeedDemo' ./jsonschema 2>&1 | tail -1)
git apply -R $SRC/patch.diff
DEMO_WITHOUT=$(go test -vet=off -count=1 -race -run 'TestSeedDemo' ./jsonschema 2>&1 | tail -1)
echo "CONFIRM suite_with_change: $SUITE"
echo "CONFIRM demo_with_change: $DEMO_WITH"
echo "CONFIRM demo_without_change: $DEMO_WITHOUT"
case "$SUITE" in ok*) ;; *) echo "CONFIRM REJECTED (suite fails)"; exit 4;; esac
case "$DEMO_WITH" in ok*) echo "CONFIRM REJECTED (demo passes with change)"; exit 4;; esac
case "$DEMO_WITHOUT" in ok*) ;; *) echo "CONFIRM REJECTED (demo fails without change)"; exit 4;; esac
cd /verif
if [ "${SCRATCH:-0}" = 1 ]; then
  rm -f $WT/jsonschema/seed_demo_test.go
  git -C $WT apply $SRC/patch.diff || exit 3
  export VERIF_TOOLING_REPO=$WT VERIF_TOOLING_OUT=/tmp/sv/out.$ID.$$
else
  git -C /repo apply $SRC/patch.diff || exit 3
fi
for c in $CHECKS; do
  OUT=$(./check $c --tier ${TIER:-quick} 2>&1); RC=$?
  N=$(echo "$OUT" | grep -c '^VIOLATION')
  echo "DETECT check=$c rc=$RC violations=$N"
  echo "$OUT" | grep '^violation:' | head -2 | cut -c1-400
  [ $RC -eq 2 ] && echo "$OUT" | tail -5 | cut -c1-300
done
if [ "${SCRATCH:-0}" != 1 ]; then
  git -C /repo checkout -- .
  git -C /repo status --short
  rm -rf /verif/replays
fi
