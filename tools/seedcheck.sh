#!/bin/bash
# tools/seedcheck.sh <ID> <dir with patch.diff, seed_demo_test.go, meta.json> [checks to run, default <ID>]
# 1. confirms the seeded change in a scratch worktree (suite passes, demo fails with it, passes without)
# 2. applies it to /repo, runs the checks, undoes it; prints which checks raised a VIOLATION
set -u
ID=$1; SRC=$2; shift 2; CHECKS=${*:-$ID}
export GOFLAGS=-mod=mod GOPROXY=off GOSUMDB=off GOTOOLCHAIN=local
WT=/tmp/sv/$ID.$$
mkdir -p /tmp/sv
git -C /repo worktree add -q --detach $WT HEAD || exit 3
cleanup() { git -C /repo worktree remove --force $WT 2>/dev/null; }
trap cleanup EXIT
( cd $WT && git apply $SRC/patch.diff ) || { echo "CONFIRM patch does not apply"; exit 3; }
cp $SRC/seed_demo_test.go $WT/jsonschema/seed_demo_test.go
cd $WT
go build ./... || { echo "CONFIRM does-not-compile"; exit 3; }
SUITE=$(go test -vet=off -count=1 -skip 'TestSeedDemo' ./... 2>&1 | tail -1)
DEMO_WITH=$(go test -vet=off -count=1 -race -run 'TestSeedDemo' ./jsonschema 2>&1 | tail -1)
git apply -R $SRC/patch.diff
DEMO_WITHOUT=$(go test -vet=off -count=1 -race -run 'TestSeedDemo' ./jsonschema 2>&1 | tail -1)
echo "CONFIRM suite_with_change: $SUITE"
echo "CONFIRM demo_with_change: $DEMO_WITH"
echo "CONFIRM demo_without_change: $DEMO_WITHOUT"
case "$SUITE" in ok*) ;; *) echo "CONFIRM REJECTED (suite fails)"; exit 4;; esac
case "$DEMO_WITH" in ok*) echo "CONFIRM REJECTED (demo passes with change)"; exit 4;; esac
case "$DEMO_WITHOUT" in ok*) ;; *) echo "CONFIRM REJECTED (demo fails without change)"; exit 4;; esac
cd /verif
git -C /repo apply $SRC/patch.diff || exit 3
for c in $CHECKS; do
  OUT=$(./check $c --tier ${TIER:-quick} 2>&1); RC=$?
  N=$(echo "$OUT" | grep -c '^VIOLATION')
  echo "DETECT check=$c rc=$RC violations=$N"
  echo "$OUT" | grep '^violation:' | head -2 | cut -c1-400
  [ $RC -eq 2 ] && echo "$OUT" | tail -5 | cut -c1-300
done
git -C /repo checkout -- .
git -C /repo status --short
rm -rf /verif/replays
