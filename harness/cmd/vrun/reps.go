package main

import (
	"encoding/json"
	"fmt"
	"hash/maphash"
	"math/big"
	"reflect"
	"sort"
	"strings"
	"sync"

	"github.com/google/jsonschema-go/jsonschema"
	"verif/harness/abs"
)

func init() {
	families["equal"] = &Family{Run: runEqual}
	families["uarr"] = &Family{Run: runUArr}
	families["repval"] = &Family{Run: runRepVal}
}

// built values of a header sequence, cached per header object
var (
	builtMu    sync.Mutex
	builtCache = map[*any][]any{}
)

func builtSeq(hdr Header, key string) []any {
	seq := abs.Seq(hdr[key])
	if len(seq) == 0 {
		return nil
	}
	builtMu.Lock()
	defer builtMu.Unlock()
	if b, ok := builtCache[&seq[0]]; ok {
		return b
	}
	out := make([]any, len(seq))
	for i, v := range seq {
		out[i] = abs.BuildRep(v)
	}
	builtCache[&seq[0]] = out
	return out
}

// canon is an independent canonical form: JSON text with numbers as reduced
// fractions and object keys sorted. Two values are the same JSON value iff
// their canonical forms are equal. Computed from the abstract description, not
// from the Go value.
func canon(v any) string {
	m := abs.Obj(v)
	switch m["t"] {
	case "null":
		return "null"
	case "bool":
		return fmt.Sprint(m["b"])
	case "num":
		n := abs.P.Numbers[abs.Int(m["n"])]
		r, _ := new(big.Rat).SetString(n.Num + "/" + n.Den)
		return "#" + r.String()
	case "str":
		b, _ := json.Marshal(abs.Str(m["s"].(string)))
		return string(b)
	case "arr":
		var parts []string
		for _, e := range abs.Seq(m["e"]) {
			parts = append(parts, canon(e))
		}
		return "[" + strings.Join(parts, ",") + "]"
	case "obj":
		mm := abs.Obj(m["m"])
		var parts []string
		for k, e := range mm {
			b, _ := json.Marshal(abs.Str(k))
			parts = append(parts, string(b)+":"+canon(e))
		}
		sort.Strings(parts)
		return "{" + strings.Join(parts, ",") + "}"
	}
	panic("canon")
}

func describe(v any) string { return fmt.Sprintf("%#v", v) }

var hashSeeds = []maphash.Seed{maphash.MakeSeed(), maphash.MakeSeed(), maphash.MakeSeed(), maphash.MakeSeed()}

// Family "equal": CASE {"x": represented value, "exp": ["T"|"F", ...]} against header YS.
func runEqual(hdr Header, c any, src string) CaseResult {
	cm := abs.Obj(c)
	ys := abs.Seq(hdr["YS"])
	built := builtSeq(hdr, "YS")
	exp := abs.Seq(cm["exp"])
	x := abs.BuildRep(cm["x"])
	cx := canon(cm["x"])
	res := CaseResult{Key: describe(x) + cx}
	// memory plays no part in JSON equality: a value equals itself, and a slice does not equal a shorter
	// slice of the same backing array (x[:n-1], or x appended into spare capacity), at the top or nested
	if rv := reflect.ValueOf(x); rv.IsValid() {
		res.Evals++
		if !jsonschema.Equal(x, x) {
			res.Failures = append(res.Failures, Failure{Kind: "equal", Source: src, Abstract: []any{cm["x"], cm["x"]},
				Concrete: map[string]any{"x": describe(x), "y": "the same Go value"}, Expected: map[string]any{"Equal": true}, Got: false})
		}
		if rv.Kind() == reflect.Slice && rv.Len() >= 1 {
			short := rv.Slice(0, rv.Len()-1).Interface()
			pairs := [][2]any{{short, x}, {x, short}, {[]any{short}, []any{x}}, {map[string]any{"k": short}, map[string]any{"k": x}}}
			for _, pr := range pairs {
				res.Evals++
				if jsonschema.Equal(pr[0], pr[1]) {
					res.Failures = append(res.Failures, Failure{Kind: "equal", Source: src, Abstract: []any{cm["x"], "prefix of x sharing its backing array"},
						Concrete: map[string]any{"x": describe(pr[0]), "y": describe(pr[1]), "aliasing": "one side is a proper prefix of the other, same backing array"},
						Expected: map[string]any{"Equal": false}, Got: true})
					break
				}
			}
		}
	}
	sawT, sawF := false, false
	for j, e := range exp {
		want := e.(string) == "T"
		// second, independent witness of the prediction
		if (cx == canon(ys[j])) != want {
			res.Failures = append(res.Failures, Failure{Kind: "spec-doubt", Source: src, Abstract: []any{cm["x"], ys[j]},
				Detail: "canonical-form witness disagrees with the specification's SameJSON"})
			return res
		}
		y := built[j]
		res.Evals += 2
		got1 := jsonschema.Equal(x, y)
		got2 := jsonschema.Equal(y, x)
		if want {
			sawT = true
		} else {
			sawF = true
		}
		if got1 != want || got2 != want {
			res.Failures = append(res.Failures, Failure{Kind: "equal", Source: src, Abstract: []any{cm["x"], ys[j]},
				Concrete: map[string]any{"x": describe(x), "y": describe(y)},
				Expected: map[string]any{"Equal": want}, Got: map[string]any{"Equal(x,y)": got1, "Equal(y,x)": got2},
				Replay: map[string]any{"hdr": map[string]any{"YS": []any{ys[j]}}, "case": map[string]any{"x": cm["x"], "exp": []any{e}}}})
			if len(res.Failures) >= 3 {
				break
			}
			continue
		}
		if want {
			// the hash law that uniqueItems relies on: Equal => same hash, for every seed
			for _, seed := range hashSeeds {
				res.Evals++
				if jsonschema.VerifHash(seed, x) != jsonschema.VerifHash(seed, y) {
					res.Failures = append(res.Failures, Failure{Kind: "hash-law", Source: src, Abstract: []any{cm["x"], ys[j]},
						Concrete: map[string]any{"x": describe(x), "y": describe(y)},
						Expected: "Equal(x,y) implies hash(x) = hash(y) under the same seed", Got: "hashes differ",
						Replay: map[string]any{"hdr": map[string]any{"YS": []any{ys[j]}}, "case": map[string]any{"x": cm["x"], "exp": []any{e}}}})
					break
				}
			}
		}
	}
	res.Nontrivial = sawT && sawF
	res.Sample = map[string]any{"x": describe(x), "compared_with": len(exp)}
	return res
}

func resolveAbstract(s any) (*jsonschema.Resolved, string, error) {
	text := abs.SchemaJSON(s)
	var sch jsonschema.Schema
	if err := json.Unmarshal([]byte(text), &sch); err != nil {
		return nil, text, err
	}
	rs, err := sch.Resolve(nil)
	return rs, text, err
}

var (
	rsMu    sync.Mutex
	rsCache = map[string]*jsonschema.Resolved{}
)

func cachedResolved(s any) (*jsonschema.Resolved, string, error) {
	text := abs.SchemaJSON(s)
	rsMu.Lock()
	defer rsMu.Unlock()
	if rs, ok := rsCache[text]; ok {
		return rs, text, nil
	}
	rs, _, err := resolveAbstract(s)
	if err == nil {
		rsCache[text] = rs
	}
	return rs, text, err
}

func errText(err error) string {
	if err == nil {
		return "nil"
	}
	return err.Error()
}

// Family "uarr": CASE {"v": represented value, "exp": [...]} against header SCHEMAS.
// Every verdict is taken 8 times: uniqueItems draws a fresh hash seed per call.
func runUArr(hdr Header, c any, src string) CaseResult {
	cm := abs.Obj(c)
	schemas := abs.Seq(hdr["SCHEMAS"])
	exp := abs.Seq(cm["exp"])
	v := abs.BuildRep(cm["v"])
	res := CaseResult{Key: describe(v)}
	sawT, sawF := false, false
	for j, e := range exp {
		want := e.(string) == "T"
		rs, text, err := cachedResolved(schemas[j])
		if err != nil {
			res.Failures = append(res.Failures, Failure{Kind: "resolve", Source: src, Abstract: schemas[j], Got: err.Error()})
			return res
		}
		for rep := 0; rep < 8; rep++ {
			res.Evals++
			verr := rs.Validate(v)
			if (verr == nil) != want {
				res.Failures = append(res.Failures, Failure{Kind: "verdict", Source: src, Abstract: []any{schemas[j], cm["v"]},
					Concrete: map[string]any{"schema": json.RawMessage(text), "instance": describe(v), "denotes": json.RawMessage(abs.DenJSON(cm["v"]))},
					Expected: map[string]any{"valid": want}, Got: errText(verr),
					Replay: map[string]any{"hdr": map[string]any{"SCHEMAS": []any{schemas[j]}}, "case": map[string]any{"v": cm["v"], "exp": []any{e}}}})
				break
			}
		}
		if want {
			sawT = true
		} else {
			sawF = true
		}
		if len(res.Failures) >= 3 {
			break
		}
	}
	res.Nontrivial = sawT && sawF
	res.Sample = map[string]any{"instance": describe(v), "schemas": len(exp)}
	goShapedOnce.Do(func() { goShapedUnique(&res, src, c) })
	return res
}

// C12 read as a relation between the package's own operations, on elements no JSON decoding produces (struct values
// with skipped, unexported and pointer fields, nested in maps and slices): [x, y] passes uniqueItems exactly when
// Equal(x, y) is false, and [y] passes const / enum [x] exactly when Equal(x, y) is true.  No prediction is involved:
// whatever Equal says about two such values, the three keywords must say the same.  (Once per process, reported
// with the first case.)
var goShapedOnce sync.Once

type oddS struct {
	A      int
	B      string `json:"b"`
	Hidden int    `json:"-"`
	priv   int
	P      *int
	M      map[string]any
}

func goShapedUnique(res *CaseResult, src string, c any) {
	one, uno := 1, 1
	green := "green"
	pool := []any{
		oddS{A: 1}, oddS{A: 1, Hidden: 2}, oddS{A: 1, priv: 3}, oddS{A: 2}, oddS{A: 1, B: "b"}, &oddS{A: 1}, oddS{A: 1, P: &one}, oddS{A: 1, P: &uno},
		oddS{A: 1, M: map[string]any{}}, oddS{A: 1, M: map[string]any{"k": oddS{Hidden: 1}}}, oddS{A: 1, M: map[string]any{"k": oddS{Hidden: 2}}},
		struct{ X float64 }{1}, struct{ X int }{1}, struct{ X any }{1.0}, struct{ X any }{json.Number("1")},
		map[string]any{"k": []any{oddS{A: 1}}}, map[string]any{"k": []any{oddS{A: 1, Hidden: 9}}}, []oddS{{A: 1}}, []any{oddS{A: 1, Hidden: 7}},
		// JSON scalars in the representations a Schema LITERAL may hold in Enum / Const (named types, pointers)
		"green", abs.NamedStr("green"), &green, "plain", abs.NamedStr("plain"), json.Number("1"), 1.0, int8(1), "1", abs.NamedStr("1"),
	}
	uniq := &jsonschema.Schema{UniqueItems: true}
	urs, err := uniq.Resolve(nil)
	if err != nil {
		return
	}
	for i, x := range pool {
		for j, y := range pool {
			eq := jsonschema.Equal(x, y)
			report := func(kw string, got bool, want bool) {
				res.Failures = append(res.Failures, Failure{Kind: "verdict-vs-equal", Source: src, Abstract: c,
					Concrete: map[string]any{"keyword": kw, "x": fmt.Sprintf("%#v", x), "y": fmt.Sprintf("%#v", y), "Equal(x, y)": eq, "pool_indexes": []int{i, j}},
					Expected: map[string]any{"valid": want}, Got: map[string]any{"valid": got},
					Replay: map[string]any{"hdr": map[string]any{"SCHEMAS": []any{}}, "case": map[string]any{"v": abs.Obj(c)["v"], "exp": []any{}}}})
			}
			for rep := 0; rep < 4; rep++ {
				res.Evals++
				if got := urs.Validate([]any{x, y}) == nil; got != !eq {
					report("uniqueItems on [x, y]", got, !eq)
					return
				}
			}
			// enum lists that MIX representations: a plain string next to the value under test
			for kw, sch := range map[string]*jsonschema.Schema{"enum [\"plain\", x] on y": {Enum: []any{"plain", x}}, "enum [x, \"plain\", 2] on y": {Enum: []any{x, "plain", 2.0}}} {
				if isStructValue(x) || isStructValue(y) {
					continue // Validate refuses a struct handed to it directly (also behind pointers)
				}
				rs, err := sch.Resolve(nil)
				if err != nil {
					continue
				}
				want := eq || jsonschema.Equal("plain", y) || (strings.HasSuffix(kw, "2] on y") && jsonschema.Equal(2.0, y))
				res.Evals++
				if got := rs.Validate(y) == nil; got != want {
					report(kw, got, want)
					return
				}
			}
			var cv any = []any{x}
			for kw, sch := range map[string]*jsonschema.Schema{"const [x] on [y]": {Const: &cv}, "enum [[x], 7] on [y]": {Enum: []any{[]any{x}, 7.0}}} {
				rs, err := sch.Resolve(nil)
				if err != nil {
					continue
				}
				res.Evals++
				if got := rs.Validate([]any{y}) == nil; got != eq {
					report(kw, got, eq)
					return
				}
			}
		}
	}
}

// Family "repval": CASE {"s": schema, "exp": [...]} against header VS (represented values).
// The verdict must be that of the canonical encoding/json decoding of the same document.
func runRepVal(hdr Header, c any, src string) CaseResult {
	cm := abs.Obj(c)
	vs := abs.Seq(hdr["VS"])
	built := builtSeq(hdr, "VS")
	exp := abs.Seq(cm["exp"])
	rs, text, err := resolveAbstract(cm["s"])
	res := CaseResult{Key: text}
	if err != nil {
		res.Failures = append(res.Failures, Failure{Kind: "resolve", Source: src, Abstract: cm["s"], Got: err.Error()})
		return res
	}
	sawT, sawF := false, false
	for j, e := range exp {
		es := e.(string)
		want := es == "T"
		if es == "x" {
			// outside the domain on which L0 defines the keyword (multipleOf beyond the dyadic / 2^53 pool): C08
			// itself names the oracle - the verdict of the canonical encoding/json decoding of the same document
			var canon any
			if err := json.Unmarshal([]byte(abs.DenJSON(vs[j])), &canon); err != nil {
				res.Skipped++
				continue
			}
			ok := true
			func() {
				defer func() {
					if recover() != nil {
						ok = false
					}
				}()
				want = rs.Validate(canon) == nil
			}()
			if !ok {
				res.Skipped++
				continue
			}
		}
		res.Evals++
		var verr error
		before := dump(built[j]) // Validate must leave the instance as it found it, however it is represented
		if pmsg := func() (msg string) {
			defer func() {
				if r := recover(); r != nil {
					msg = fmt.Sprint(r)
				}
			}()
			verr = rs.Validate(built[j])
			return ""
		}(); pmsg != "" {
			res.Failures = append(res.Failures, Failure{Kind: "panic", Source: src, Abstract: []any{cm["s"], vs[j]},
				Concrete: map[string]any{"schema": json.RawMessage(text), "instance": describe(built[j]), "denotes": json.RawMessage(abs.DenJSON(vs[j]))},
				Expected: "Validate returns, with nil or an error", Got: "panic: " + pmsg,
				Replay: map[string]any{"hdr": map[string]any{"VS": []any{vs[j]}}, "case": map[string]any{"s": cm["s"], "exp": []any{e}}}})
			if len(res.Failures) >= 4 {
				break
			}
			continue
		}
		if after := dump(built[j]); after != before {
			res.Failures = append(res.Failures, Failure{Kind: "validate-modifies-instance", Source: src, Abstract: []any{cm["s"], vs[j]},
				Concrete: map[string]any{"schema": json.RawMessage(text), "instance_before": before, "denotes": json.RawMessage(abs.DenJSON(vs[j]))},
				Expected: "the instance is unchanged after Validate", Got: after,
				Replay: map[string]any{"hdr": map[string]any{"VS": []any{vs[j]}}, "case": map[string]any{"s": cm["s"], "exp": []any{e}}}})
			if len(res.Failures) >= 4 {
				break
			}
			continue
		}
		if want {
			sawT = true
		} else {
			sawF = true
		}
		if (verr == nil) != want {
			canonV := "n/a"
			if n := abs.Obj(vs[j]); true {
				_ = n
				func() {
					defer func() { recover() }()
					canonV = errText(rs.Validate(abs.ValueGo(vs[j])))
				}()
			}
			res.Failures = append(res.Failures, Failure{Kind: "verdict", Source: src, Abstract: []any{cm["s"], vs[j]},
				Concrete: map[string]any{"schema": json.RawMessage(text), "instance": describe(built[j]), "denotes": json.RawMessage(abs.DenJSON(vs[j]))},
				Expected: map[string]any{"valid": want, "canonical_decoding_verdict": canonV}, Got: errText(verr),
				Replay: map[string]any{"hdr": map[string]any{"VS": []any{vs[j]}}, "case": map[string]any{"s": cm["s"], "exp": []any{e}}}})
			if len(res.Failures) >= 4 {
				break
			}
		}
	}
	res.Nontrivial = sawT && sawF
	res.Sample = map[string]any{"schema": json.RawMessage(text), "instances": len(exp)}
	return res
}

func isStructValue(x any) bool {
	v := reflect.ValueOf(x)
	for v.IsValid() && (v.Kind() == reflect.Pointer || v.Kind() == reflect.Interface) {
		if v.IsNil() {
			return false
		}
		v = v.Elem()
	}
	return v.IsValid() && v.Kind() == reflect.Struct
}
