package main

import (
	"encoding/json"
	"fmt"
	"net/url"
	"reflect"

	"github.com/google/jsonschema-go/jsonschema"
	"verif/harness/abs"
)

func init() {
	families["defaults"] = &Family{Run: runDefaults}
}

// Family "defaults" (C15): CASE {"s": schema, "after": [value per instance], "vd": "ok"|"err"}
func runDefaults(hdr Header, c any, src string) CaseResult {
	cm := abs.Obj(c)
	insts := abs.Seq(hdr["INSTS"])
	after := abs.Seq(cm["after"])
	text := abs.SchemaJSON(cm["s"])
	rootText := text
	res := CaseResult{Key: text}
	fail := func(kind string, conc, exp, got any) {
		res.Failures = append(res.Failures, Failure{Kind: kind, Source: src, Abstract: c, Concrete: conc, Expected: exp, Got: got})
	}
	var s jsonschema.Schema
	if err := json.Unmarshal([]byte(text), &s); err != nil {
		fail("unmarshal", json.RawMessage(text), "accepted", err.Error())
		return res
	}
	// a root that refers to a Loader document: fresh parse of the remote document for every Resolve
	var opts func(vd bool) *jsonschema.ResolveOptions
	if rem, ok := cm["rem"]; ok {
		remText, remURI, rootURI := abs.SchemaJSON(rem), abs.URIText(cm["remURI"]), abs.URIText(cm["rootURI"])
		text = fmt.Sprintf(`{"root":%s,"loader":{%q:%s}}`, text, remURI, remText)
		res.Key = text
		opts = func(vd bool) *jsonschema.ResolveOptions {
			return &jsonschema.ResolveOptions{BaseURI: rootURI, ValidateDefaults: vd, Loader: func(u *url.URL) (*jsonschema.Schema, error) {
				if u.String() != remURI {
					return nil, fmt.Errorf("no document at %s", u)
				}
				var d jsonschema.Schema
				if err := json.Unmarshal([]byte(remText), &d); err != nil {
					return nil, err
				}
				return &d, nil
			}}
		}
	} else {
		opts = func(vd bool) *jsonschema.ResolveOptions {
			if !vd {
				return nil
			}
			return &jsonschema.ResolveOptions{ValidateDefaults: true}
		}
	}
	rs, err := s.Resolve(opts(false))
	if err != nil {
		fail("resolve", json.RawMessage(text), "accepted", err.Error())
		return res
	}
	changed := false
	for i, in := range insts {
		ij := abs.ValueJSON(in)
		var v any
		json.Unmarshal([]byte(ij), &v)
		res.Evals++
		if err := rs.ApplyDefaults(&v); err != nil {
			fail("apply", map[string]any{"schema": json.RawMessage(text), "instance": json.RawMessage(ij)}, "no error", err.Error())
			continue
		}
		var want any
		wj := abs.ValueJSON(after[i])
		json.Unmarshal([]byte(wj), &want)
		if wj != ij {
			changed = true
		}
		if !reflect.DeepEqual(v, want) {
			gj, _ := json.Marshal(v)
			fail("defaults", map[string]any{"schema": json.RawMessage(text), "instance": json.RawMessage(ij)},
				json.RawMessage(wj), json.RawMessage(gj))
			continue
		}
		// the same instance held in a TYPED map (map[string]map[string]any): same after-state, and the inserted
		// values are independent objects (only when every top-level member, before and after, is an object)
		if tm, ok := typedObjMap(ij); ok {
			if _, ok2 := typedObjMap(wj); ok2 {
				res.Evals++
				err := rs.ApplyDefaults(&tm)
				gj, _ := json.Marshal(tm)
				var got any
				json.Unmarshal(gj, &got)
				if err != nil || !reflect.DeepEqual(got, want) {
					fail("defaults-typed-map", map[string]any{"schema": json.RawMessage(text), "instance": json.RawMessage(ij), "held_as": "map[string]map[string]any"},
						json.RawMessage(wj), fmt.Sprint(string(gj), " ", err))
				} else {
					seen := map[uintptr]string{}
					for k, m := range tm {
						if m == nil {
							continue
						}
						p := reflect.ValueOf(m).Pointer()
						if other, dup := seen[p]; dup {
							fail("defaults-typed-map", map[string]any{"schema": json.RawMessage(text), "instance": json.RawMessage(ij), "held_as": "map[string]map[string]any"},
								"every member its own object", "members "+other+" and "+k+" are the same map")
							break
						}
						seen[p] = k
					}
				}
			}
		}
		// history: a second application changes nothing
		res.Evals++
		if err := rs.ApplyDefaults(&v); err != nil || !reflect.DeepEqual(v, want) {
			gj, _ := json.Marshal(v)
			fail("not-idempotent", map[string]any{"schema": json.RawMessage(text), "instance": json.RawMessage(ij)},
				json.RawMessage(wj), json.RawMessage(gj))
		}
		if len(res.Failures) >= 3 {
			break
		}
	}
	// ValidateDefaults
	var s2 jsonschema.Schema
	json.Unmarshal([]byte(rootText), &s2)
	rs2, verr := s2.Resolve(opts(true))
	res.Evals++
	wantOK := cm["vd"] == "ok"
	if (verr == nil) != wantOK {
		fail("validate-defaults", json.RawMessage(text), map[string]any{"Resolve(ValidateDefaults) succeeds": wantOK}, errText(verr))
	}
	// The same after-states from a Resolved whose defaults were validated, and every instance owns what
	// was inserted into it: the caller writes into each result, later applications must not see that.
	if verr == nil {
		for pass := 0; pass < 2 && len(res.Failures) == 0; pass++ {
			for i, in := range insts {
				ij := abs.ValueJSON(in)
				var v, want any
				json.Unmarshal([]byte(ij), &v)
				json.Unmarshal([]byte(abs.ValueJSON(after[i])), &want)
				res.Evals++
				if err := rs2.ApplyDefaults(&v); err != nil || !reflect.DeepEqual(v, want) {
					gj, _ := json.Marshal(v)
					fail("defaults-shared", map[string]any{"schema": json.RawMessage(text), "instance": json.RawMessage(ij),
						"history": "earlier results of ApplyDefaults on the same Resolved (ValidateDefaults) were written to by their owner"},
						json.RawMessage(abs.ValueJSON(after[i])), json.RawMessage(gj))
					break
				}
				scribbleInstance(v, 7)
			}
		}
	}
	res.Nontrivial = changed || !wantOK
	res.Sample = map[string]any{"schema": json.RawMessage(text), "validate_defaults": cm["vd"]}
	return res
}

// typedObjMap decodes a JSON object whose members are all objects into map[string]map[string]any.
func typedObjMap(doc string) (map[string]map[string]any, bool) {
	var probe map[string]any
	if json.Unmarshal([]byte(doc), &probe) != nil || probe == nil {
		return nil, false
	}
	for _, v := range probe {
		if _, ok := v.(map[string]any); !ok {
			return nil, false
		}
	}
	out := map[string]map[string]any{}
	if json.Unmarshal([]byte(doc), &out) != nil {
		return nil, false
	}
	return out, true
}
