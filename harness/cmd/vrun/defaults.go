package main

import (
	"encoding/json"
	"reflect"

	"github.com/google/jsonschema-go/jsonschema"
	"verif/harness/abs"
)

func init() {
	families["defaults"] = &Family{Run: runDefaults}
}

// Family "defaults" (C15): CASE {"s": schema, "after": [value per instance], "vd": "ok"|"err"}
func runDefaults(hdr Header, c any, src string) CaseResult {
	cm := abs.Obj(c)
	insts := abs.Seq(hdr["INSTS"])
	after := abs.Seq(cm["after"])
	text := abs.SchemaJSON(cm["s"])
	res := CaseResult{Key: text}
	fail := func(kind string, conc, exp, got any) {
		res.Failures = append(res.Failures, Failure{Kind: kind, Source: src, Abstract: c, Concrete: conc, Expected: exp, Got: got})
	}
	var s jsonschema.Schema
	if err := json.Unmarshal([]byte(text), &s); err != nil {
		fail("unmarshal", json.RawMessage(text), "accepted", err.Error())
		return res
	}
	rs, err := s.Resolve(nil)
	if err != nil {
		fail("resolve", json.RawMessage(text), "accepted", err.Error())
		return res
	}
	changed := false
	for i, in := range insts {
		ij := abs.ValueJSON(in)
		var v any
		json.Unmarshal([]byte(ij), &v)
		res.Evals++
		if err := rs.ApplyDefaults(&v); err != nil {
			fail("apply", map[string]any{"schema": json.RawMessage(text), "instance": json.RawMessage(ij)}, "no error", err.Error())
			continue
		}
		var want any
		wj := abs.ValueJSON(after[i])
		json.Unmarshal([]byte(wj), &want)
		if wj != ij {
			changed = true
		}
		if !reflect.DeepEqual(v, want) {
			gj, _ := json.Marshal(v)
			fail("defaults", map[string]any{"schema": json.RawMessage(text), "instance": json.RawMessage(ij)},
				json.RawMessage(wj), json.RawMessage(gj))
			continue
		}
		// history: a second application changes nothing
		res.Evals++
		if err := rs.ApplyDefaults(&v); err != nil || !reflect.DeepEqual(v, want) {
			gj, _ := json.Marshal(v)
			fail("not-idempotent", map[string]any{"schema": json.RawMessage(text), "instance": json.RawMessage(ij)},
				json.RawMessage(wj), json.RawMessage(gj))
		}
		if len(res.Failures) >= 3 {
			break
		}
	}
	// ValidateDefaults
	var s2 jsonschema.Schema
	json.Unmarshal([]byte(text), &s2)
	rs2, verr := s2.Resolve(&jsonschema.ResolveOptions{ValidateDefaults: true})
	res.Evals++
	wantOK := cm["vd"] == "ok"
	if (verr == nil) != wantOK {
		fail("validate-defaults", json.RawMessage(text), map[string]any{"Resolve(ValidateDefaults) succeeds": wantOK}, errText(verr))
	}
	// The same after-states from a Resolved whose defaults were validated, and every instance owns what
	// was inserted into it: the caller writes into each result, later applications must not see that.
	if verr == nil {
		for pass := 0; pass < 2 && len(res.Failures) == 0; pass++ {
			for i, in := range insts {
				ij := abs.ValueJSON(in)
				var v, want any
				json.Unmarshal([]byte(ij), &v)
				json.Unmarshal([]byte(abs.ValueJSON(after[i])), &want)
				res.Evals++
				if err := rs2.ApplyDefaults(&v); err != nil || !reflect.DeepEqual(v, want) {
					gj, _ := json.Marshal(v)
					fail("defaults-shared", map[string]any{"schema": json.RawMessage(text), "instance": json.RawMessage(ij),
						"history": "earlier results of ApplyDefaults on the same Resolved (ValidateDefaults) were written to by their owner"},
						json.RawMessage(abs.ValueJSON(after[i])), json.RawMessage(gj))
					break
				}
				scribbleInstance(v, 7)
			}
		}
	}
	res.Nontrivial = changed || !wantOK
	res.Sample = map[string]any{"schema": json.RawMessage(text), "validate_defaults": cm["vd"]}
	return res
}
