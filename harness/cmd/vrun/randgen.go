package main

import (
	"math/rand"
)

// randGen produces random schema documents (as raw JSON values) over the whole
// vocabulary of one draft, and random instances over a small shared pool of
// names, strings and dyadic numbers. References are only generated so that
// they resolve and that in-place recursion is impossible: $defs entries are
// generated first and may only be referred to; "#" is only referred to from
// below an instance-descending keyword.
type randGen struct {
	rng     *rand.Rand
	d7      bool
	defs    []string
	anchors []string
}

var (
	rgNames    = []string{"a", "b", "c", "ab", "é", ""}
	rgStrings  = []string{"", "a", "b", "ab", "abc", "é", "é", "\U0001F600", "aXc"}
	rgNumbers  = []float64{-2, -1.5, -1, -0.5, 0, 0.25, 0.5, 1, 1.5, 2, 2.5, 3, 4, 127, 128, 255, 256, 2147483647, 2147483648, 9007199254740992}
	rgPatterns = []string{"^a", "b$", "a.c", "^[ab]+$", "b", "^$", "é", "^.$", "^..$"}
	rgTypes    = []string{"null", "boolean", "number", "integer", "string", "array", "object"}
)

func (g *randGen) pick(xs []string) string { return xs[g.rng.Intn(len(xs))] }
func (g *randGen) num() float64            { return rgNumbers[g.rng.Intn(len(rgNumbers))] }

func (g *randGen) scalar() any {
	switch g.rng.Intn(5) {
	case 0:
		return nil
	case 1:
		return g.rng.Intn(2) == 0
	case 2, 3:
		return g.num()
	}
	return g.pick(rgStrings)
}

func (g *randGen) instance(depth int) any {
	if depth == 0 || g.rng.Intn(3) == 0 {
		return g.scalar()
	}
	if g.rng.Intn(2) == 0 {
		n := g.rng.Intn(4)
		arr := make([]any, n)
		for i := range arr {
			arr[i] = g.instance(depth - 1)
		}
		return arr
	}
	m := map[string]any{}
	for i := g.rng.Intn(4); i > 0; i-- {
		m[g.pick(rgNames)] = g.instance(depth - 1)
	}
	return m
}

func (g *randGen) root() any {
	g.defs, g.anchors = nil, nil
	defs := map[string]any{}
	for i := g.rng.Intn(3); i > 0; i-- {
		name := []string{"x", "y", "a/b", "z~"}[g.rng.Intn(4)]
		d, _ := g.schema(2, false, false).(map[string]any)
		if d == nil {
			continue
		}
		if !g.d7 && g.rng.Intn(3) == 0 {
			a := "anc" + name[:1]
			d["$anchor"] = a
			g.anchors = append(g.anchors, a)
		}
		defs[name] = d
	}
	for n := range defs {
		g.defs = append(g.defs, n)
	}
	s, ok := g.schema(3, true, false).(map[string]any)
	if !ok {
		s = map[string]any{}
	}
	if len(defs) > 0 {
		if g.d7 {
			s["definitions"] = defs
		} else {
			s["$defs"] = defs
		}
	}
	if g.d7 {
		s["$schema"] = "http://json-schema.org/draft-07/schema#"
	}
	return s
}

func ptrEsc(s string) string {
	out := ""
	for _, c := range s {
		switch c {
		case '~':
			out += "~0"
		case '/':
			out += "~1"
		default:
			out += string(c)
		}
	}
	return out
}

// schema generates a schema. refs: references to $defs are allowed; below: we
// are below an instance-descending keyword (so "#" may be referenced).
func (g *randGen) schema(depth int, refs, below bool) any {
	if g.rng.Intn(12) == 0 {
		return g.rng.Intn(3) > 0
	}
	s := map[string]any{}
	nk := 1 + g.rng.Intn(4)
	if depth == 0 {
		nk = 1 + g.rng.Intn(2)
	}
	sub := func(b bool) any {
		if depth == 0 {
			return g.leaf()
		}
		return g.schema(depth-1, refs, below || b)
	}
	subs := func(b bool) []any {
		n := 1 + g.rng.Intn(3)
		out := make([]any, n)
		for i := range out {
			out[i] = sub(b)
		}
		return out
	}
	for i := 0; i < nk; i++ {
		c := g.rng.Intn(34)
		if depth > 0 && g.rng.Intn(3) > 0 { // favour applicators: deeper evaluations
			c = []int{12, 13, 14, 18, 19, 19, 20, 21, 22, 26, 27, 28, 29, 30, 31, 32, 33, 33}[g.rng.Intn(18)]
		}
		switch c {
		case 0:
			s["type"] = g.pick(rgTypes)
		case 1:
			s["type"] = []any{g.pick(rgTypes), g.pick(rgTypes)}
		case 2:
			s["enum"] = []any{g.scalar(), g.scalar(), g.instance(1)}
		case 3:
			s["const"] = g.instance(1)
		case 4:
			s["multipleOf"] = []float64{0.25, 0.5, 1, 1.5, 2, 3}[g.rng.Intn(6)]
		case 5:
			s["minimum"] = g.num()
		case 6:
			s["maximum"] = g.num()
		case 7:
			s["exclusiveMinimum"] = g.num()
		case 8:
			s["exclusiveMaximum"] = g.num()
		case 9:
			s["minLength"] = g.rng.Intn(4)
		case 10:
			s["maxLength"] = g.rng.Intn(4)
		case 11:
			s["pattern"] = g.pick(rgPatterns)
		case 12:
			if g.d7 {
				s["items"] = subs(true)
				if g.rng.Intn(2) == 0 {
					s["additionalItems"] = sub(true)
				}
			} else {
				s["prefixItems"] = subs(true)
			}
		case 13:
			s["items"] = sub(true)
		case 14:
			s["contains"] = sub(true)
			if !g.d7 && g.rng.Intn(2) == 0 {
				s["minContains"] = g.rng.Intn(3)
			}
			if !g.d7 && g.rng.Intn(3) == 0 {
				s["maxContains"] = g.rng.Intn(3)
			}
		case 15:
			s["minItems"] = g.rng.Intn(4)
		case 16:
			s["maxItems"] = g.rng.Intn(4)
		case 17:
			s["uniqueItems"] = true
		case 18:
			if !g.d7 {
				s["unevaluatedItems"] = sub(true)
			}
		case 19:
			m := map[string]any{}
			for j := 1 + g.rng.Intn(3); j > 0; j-- {
				m[g.pick(rgNames)] = sub(true)
			}
			s["properties"] = m
		case 20:
			s["patternProperties"] = map[string]any{g.pick(rgPatterns): sub(true)}
		case 21:
			s["additionalProperties"] = sub(true)
		case 22:
			s["propertyNames"] = g.leaf()
		case 23:
			s["minProperties"] = g.rng.Intn(3)
		case 24:
			s["maxProperties"] = g.rng.Intn(3)
		case 25:
			s["required"] = []any{g.pick(rgNames)}
		case 26:
			if g.d7 {
				if g.rng.Intn(2) == 0 {
					s["dependencies"] = map[string]any{g.pick(rgNames): []any{g.pick(rgNames)}}
				} else {
					s["dependencies"] = map[string]any{g.pick(rgNames): sub(false)}
				}
			} else if g.rng.Intn(2) == 0 {
				s["dependentRequired"] = map[string]any{g.pick(rgNames): []any{g.pick(rgNames)}}
			} else {
				s["dependentSchemas"] = map[string]any{g.pick(rgNames): sub(false)}
			}
		case 27:
			if !g.d7 {
				s["unevaluatedProperties"] = sub(true)
			}
		case 28:
			s["allOf"] = subs(false)
		case 29:
			s["anyOf"] = subs(false)
		case 30:
			s["oneOf"] = subs(false)
		case 31:
			s["not"] = sub(false)
		case 32:
			s["if"] = sub(false)
			if g.rng.Intn(2) == 0 {
				s["then"] = sub(false)
			}
			if g.rng.Intn(2) == 0 {
				s["else"] = sub(false)
			}
		case 33:
			if refs && len(g.defs) > 0 && g.rng.Intn(2) == 0 {
				kw := "$defs"
				if g.d7 {
					kw = "definitions"
				}
				s["$ref"] = "#/" + kw + "/" + ptrEsc(g.defs[g.rng.Intn(len(g.defs))])
			} else if refs && len(g.anchors) > 0 && g.rng.Intn(2) == 0 {
				s["$ref"] = "#" + g.anchors[g.rng.Intn(len(g.anchors))]
			} else if refs && below {
				s["$ref"] = "#"
			}
		}
	}
	return s
}

func (g *randGen) leaf() any {
	switch g.rng.Intn(6) {
	case 0:
		return map[string]any{"type": g.pick(rgTypes)}
	case 1:
		return map[string]any{"minimum": g.num()}
	case 2:
		return map[string]any{"maxLength": g.rng.Intn(3)}
	case 3:
		return map[string]any{"const": g.scalar()}
	case 4:
		return g.rng.Intn(2) == 0
	}
	return map[string]any{"pattern": g.pick(rgPatterns)}
}

// instanceFor builds an instance shaped after the schema (so that evaluation
// goes deep instead of failing at the first type check), with random deviations.
func (g *randGen) instanceFor(s any, depth int) any {
	m, ok := s.(map[string]any)
	if !ok || depth == 0 || g.rng.Intn(6) == 0 {
		return g.instance(depth)
	}
	for _, k := range []string{"allOf", "anyOf", "oneOf"} {
		if arr, ok := m[k].([]any); ok && len(arr) > 0 && g.rng.Intn(2) == 0 {
			return g.instanceFor(arr[g.rng.Intn(len(arr))], depth)
		}
	}
	_, hasProps := m["properties"]
	_, hasPP := m["patternProperties"]
	_, hasAP := m["additionalProperties"]
	_, hasReq := m["required"]
	_, hasUP := m["unevaluatedProperties"]
	_, hasDeps := m["dependentSchemas"]
	if hasProps || hasPP || hasAP || hasReq || hasUP || hasDeps || m["type"] == "object" {
		out := map[string]any{}
		if ps, ok := m["properties"].(map[string]any); ok {
			for n, sub := range ps {
				if g.rng.Intn(4) > 0 {
					out[n] = g.instanceFor(sub, depth-1)
				}
			}
		}
		if rq, ok := m["required"].([]any); ok {
			for _, n := range rq {
				if _, has := out[n.(string)]; !has && g.rng.Intn(3) > 0 {
					out[n.(string)] = g.instance(depth - 1)
				}
			}
		}
		for i := g.rng.Intn(3); i > 0; i-- {
			n := g.pick(rgNames)
			if _, has := out[n]; !has {
				var sub any = m["additionalProperties"]
				if sub == nil {
					sub = m["unevaluatedProperties"]
				}
				out[n] = g.instanceFor(sub, depth-1)
			}
		}
		return out
	}
	_, hasItems := m["items"]
	_, hasPre := m["prefixItems"]
	_, hasCont := m["contains"]
	_, hasUI := m["unevaluatedItems"]
	if hasItems || hasPre || hasCont || hasUI || m["uniqueItems"] == true || m["type"] == "array" {
		var out []any
		if pre, ok := m["prefixItems"].([]any); ok {
			for _, sub := range pre {
				if g.rng.Intn(5) > 0 {
					out = append(out, g.instanceFor(sub, depth-1))
				}
			}
		}
		if pre, ok := m["items"].([]any); ok {
			for _, sub := range pre {
				out = append(out, g.instanceFor(sub, depth-1))
			}
		}
		for i := g.rng.Intn(3); i > 0; i-- {
			var sub any = m["items"]
			if _, isArr := sub.([]any); isArr || sub == nil {
				sub = m["contains"]
			}
			if sub == nil {
				sub = m["unevaluatedItems"]
			}
			out = append(out, g.instanceFor(sub, depth-1))
		}
		if out == nil {
			out = []any{}
		}
		return out
	}
	switch m["type"] {
	case "string":
		return g.pick(rgStrings)
	case "integer":
		return []float64{-1, 0, 1, 2, 3, 127, 256}[g.rng.Intn(7)]
	case "number":
		return g.num()
	case "boolean":
		return g.rng.Intn(2) == 0
	case "null":
		return nil
	}
	if e, ok := m["enum"].([]any); ok && len(e) > 0 && g.rng.Intn(2) == 0 {
		return e[g.rng.Intn(len(e))]
	}
	if c, ok := m["const"]; ok && g.rng.Intn(2) == 0 {
		return c
	}
	return g.instance(depth)
}
