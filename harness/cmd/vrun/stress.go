package main

import (
	"bytes"
	"encoding/json"
	"fmt"
	"net/url"
	"reflect"
	"sync"

	"github.com/google/jsonschema-go/jsonschema"
)

type stressRS struct {
	rs   *jsonschema.Resolved
	want bool
}

var stressShared map[int]stressRS

type stressT struct {
	Name  string            `json:"name"`
	Tags  []string          `json:"tags,omitempty"`
	Inner *stressInner      `json:"inner"`
	M     map[string]int    `json:"m"`
	Any   any               `json:"any"`
	Arr   [2]float32        `json:"arr"`
	Extra map[string]string `json:"extra,omitzero"`
}
type stressOv struct{ V int }
type stressOvT struct {
	P *stressOv            `json:"p"`
	Q stressOv             `json:"q"`
	L []*stressOv          `json:"l"`
	M map[string]*stressOv `json:"m,omitempty"`
}
type stressInner struct {
	X int8 `json:"x"`
	stressEmb
}
type stressEmb struct {
	Y uint16 `json:"y,omitempty"`
}

// runStress (C13, data-race clause): k goroutines x m calls on shared inputs,
// ungated, in a binary built with -race; every result is compared with the
// result of the same call made alone beforehand.
func runStress(seed int64) Result {
	res := Result{Family: "stress"}
	const G, M = 8, 40
	addFail := func(kind, what string, exp, got any) {
		res.NFailures++
		if len(res.Failures) < 10 {
			res.Failures = append(res.Failures, Failure{Kind: kind, Family: "stress", Source: what, Expected: exp, Got: got,
				Detail: "result under concurrency differs from the sequential result"})
		}
	}
	var mu sync.Mutex
	// COLD START: the very first Unmarshal / Marshal / Resolve / For of this process happen concurrently (whatever
	// the package builds lazily on first use - field-name tables, struct caches, meta-schema data - is then built
	// while other goroutines already read it). Nothing before this line has touched a Schema.
	{
		const coldDoc = `{"type":"object","properties":{"a":{"type":"integer","minimum":1},"b":{"enum":[1,"x",null]},"c":{"pattern":"^c[0-9]+$"}},"patternProperties":{"^p_":{"type":"string"},"_q$":true},"required":["a"],"x-vendor":{"k":[1,2]},"$defs":{"d":{"not":{}}}}`
		outs := make([]string, G)
		errs := make([]string, G)
		var wgc sync.WaitGroup
		start := make(chan struct{})
		for g := 0; g < G; g++ {
			wgc.Add(1)
			go func(g int) {
				defer wgc.Done()
				<-start
				var sch jsonschema.Schema
				if err := json.Unmarshal([]byte(coldDoc), &sch); err != nil {
					errs[g] = "unmarshal: " + err.Error()
					return
				}
				b, err := json.Marshal(&sch)
				if err != nil {
					errs[g] = "marshal: " + err.Error()
					return
				}
				rsv, err := sch.Resolve(nil)
				if err != nil {
					errs[g] = "resolve: " + err.Error()
					return
				}
				v1 := rsv.Validate(map[string]any{"a": 1.0, "b": "x"}) == nil
				v2 := rsv.Validate(map[string]any{"a": 0.0}) == nil
				fs, err := jsonschema.For[stressT](nil)
				fb, _ := json.Marshal(fs)
				outs[g] = fmt.Sprintf("%s|%v|%v|%s|%v", b, v1, v2, fb, err)
			}(g)
		}
		close(start)
		wgc.Wait()
		// the sequential result, computed now that the caches are warm
		var sch jsonschema.Schema
		json.Unmarshal([]byte(coldDoc), &sch)
		b, _ := json.Marshal(&sch)
		rsv, _ := sch.Resolve(nil)
		fs, ferr := jsonschema.For[stressT](nil)
		fb, _ := json.Marshal(fs)
		want := fmt.Sprintf("%s|%v|%v|%s|%v", b, rsv.Validate(map[string]any{"a": 1.0, "b": "x"}) == nil, rsv.Validate(map[string]any{"a": 0.0}) == nil, fb, ferr)
		for g := 0; g < G; g++ {
			res.Evaluations += 5
			if errs[g] != "" || outs[g] != want {
				addFail("concurrent-cold-start", "first Unmarshal/Marshal/Resolve/Validate/For of the process, from 8 goroutines at once", want, errs[g]+outs[g])
			}
		}
		res.Cases++
	}
	for _, sc := range concScenarios {
		rs, root := concResolved(sc)
		insts := []string{sc.I1, sc.I2}
		var want [2]bool
		for i, in := range insts {
			var v any
			json.Unmarshal([]byte(in), &v)
			want[i] = rs.Validate(v) == nil
		}
		wantBytes, _ := json.Marshal(root)
		var wg sync.WaitGroup
		for g := 0; g < G; g++ {
			wg.Add(1)
			go func(g int) {
				defer wg.Done()
				for m := 0; m < M; m++ {
					i := (g + m) % 2
					var v any
					json.Unmarshal([]byte(insts[i]), &v)
					got := rs.Validate(v) == nil
					mu.Lock()
					res.Evaluations++
					mu.Unlock()
					if got != want[i] {
						mu.Lock()
						addFail("concurrent-validate", fmt.Sprintf("scenario %d instance %s", sc.ID, insts[i]), want[i], got)
						mu.Unlock()
					}
					switch (g + m) % 4 {
					case 0:
						b, _ := json.Marshal(root)
						if !bytes.Equal(b, wantBytes) {
							mu.Lock()
							addFail("concurrent-marshal", fmt.Sprintf("scenario %d", sc.ID), string(wantBytes), string(b))
							mu.Unlock()
						}
					case 1:
						c := root.CloneSchemas()
						b, _ := json.Marshal(c)
						if !bytes.Equal(b, wantBytes) {
							mu.Lock()
							addFail("concurrent-clone", fmt.Sprintf("scenario %d", sc.ID), string(wantBytes), string(b))
							mu.Unlock()
						}
					case 2:
						if _, err := root.Resolve(nil); err != nil {
							mu.Lock()
							addFail("concurrent-resolve", fmt.Sprintf("scenario %d", sc.ID), "nil", err.Error())
							mu.Unlock()
						}
					}
				}
			}(g)
		}
		wg.Wait()
		res.Cases++
	}
	// one Resolved whose documents declare DIFFERENT dialects (2020-12 root, draft-07 Loader document and the reverse):
	// whatever a call keeps about "the dialect being read" is the call's own
	for _, mixed := range []struct{ root, rem string }{
		{`{"type":"object","properties":{"pair":{"prefixItems":[{"type":"string"},{"type":"integer"}],"items":false},"rem":{"$ref":"http://h/rem.json"}},"dependentRequired":{"a":["b"]}}`,
			`{"$schema":"http://json-schema.org/draft-07/schema#","items":[{"type":"integer"}],"additionalItems":{"type":"string"},"dependencies":{"c":["d"]}}`},
		{`{"$schema":"http://json-schema.org/draft-07/schema#","type":"object","properties":{"pair":{"items":[{"type":"string"},{"type":"integer"}],"additionalItems":false},"rem":{"$ref":"http://h/rem.json"}},"dependencies":{"a":["b"]}}`,
			`{"$schema":"https://json-schema.org/draft/2020-12/schema","prefixItems":[{"type":"integer"}],"items":{"type":"string"},"dependentRequired":{"c":["d"]}}`},
	} {
		var mr, md jsonschema.Schema
		json.Unmarshal([]byte(mixed.root), &mr)
		json.Unmarshal([]byte(mixed.rem), &md)
		mrs, err := mr.Resolve(&jsonschema.ResolveOptions{BaseURI: "http://h/root.json", Loader: func(*url.URL) (*jsonschema.Schema, error) { return &md, nil }})
		if err != nil {
			panic(err)
		}
		docs := []string{`{"pair":["a",1],"rem":[1,"x"]}`, `{"pair":["a",1,2],"rem":[1]}`, `{"pair":[1],"rem":["x"]}`, `{"a":1,"rem":{"c":1}}`, `{"a":1,"b":2,"rem":[1,2]}`,
			`{"pair":["a","b"],"rem":{"c":1,"d":2}}`}
		want := make([]bool, len(docs))
		for i, d := range docs {
			var v any
			json.Unmarshal([]byte(d), &v)
			want[i] = mrs.Validate(v) == nil
		}
		var wgm sync.WaitGroup
		for g := 0; g < G; g++ {
			wgm.Add(1)
			go func(g int) {
				defer wgm.Done()
				for m := 0; m < 4*M; m++ {
					i := (g + m) % len(docs)
					var v any
					json.Unmarshal([]byte(docs[i]), &v)
					got := mrs.Validate(v) == nil
					mu.Lock()
					res.Evaluations++
					if got != want[i] {
						addFail("concurrent-validate", "a Resolved whose root and Loader document declare different dialects: "+docs[i], want[i], got)
					}
					mu.Unlock()
				}
			}(g)
		}
		wgm.Wait()
		res.Cases++
	}
	// For on a shared type (struct-field caches), ApplyDefaults on distinct instances
	// of one Resolved, and Resolve of roots sharing one Loader document.
	stressShared = map[int]stressRS{}
	for _, sc := range concScenarios[:2] {
		rs, _ := concResolved(sc)
		var v any
		json.Unmarshal([]byte(sc.I1), &v)
		stressShared[sc.ID] = stressRS{rs, rs.Validate(v) == nil}
	}
	wantFor, err := jsonschema.For[stressT](nil)
	if err != nil {
		panic(err)
	}
	wantForBytes, _ := json.Marshal(wantFor)
	var ds jsonschema.Schema
	json.Unmarshal([]byte(`{"properties":{"a":{"default":1},"o":{"properties":{"x":{"default":"d"}}}}}`), &ds)
	drs, _ := ds.Resolve(nil)
	// a schema with several defaults: Resolve(ValidateDefaults) validates each of them
	var vds jsonschema.Schema
	json.Unmarshal([]byte(`{"properties":{"a":{"type":"integer","default":1},"b":{"type":"string","default":"x"},
	  "c":{"type":"array","default":[1],"items":{"type":"integer","default":2}},"d":{"default":null}},"default":{}}`), &vds)
	// container defaults below a Resolved whose defaults were validated at Resolve time: every
	// instance must receive its OWN copy (anything decoded once and handed to every instance would
	// be written by the nested defaults of concurrent calls, and by the callers afterwards)
	var ods jsonschema.Schema
	json.Unmarshal([]byte(`{"properties":{"o":{"default":{"k":[1]},"properties":{"x":{"default":"d"},"y":{"default":{"z":[]}}}},
	  "l":{"default":[{"a":1}]},"s":{"default":"str"}}}`), &ods)
	ords, err := ods.Resolve(&jsonschema.ResolveOptions{ValidateDefaults: true})
	if err != nil {
		panic(err)
	}
	var wantOD any = map[string]any{}
	{
		seq, _ := ods.Resolve(&jsonschema.ResolveOptions{ValidateDefaults: true})
		if err := seq.ApplyDefaults(&wantOD); err != nil {
			panic(err)
		}
	}
	wantODText, _ := json.Marshal(wantOD)
	// a Schema LITERAL whose slices have spare capacity (PropertyOrder shorter than the properties, Required,
	// AllOf ...): Marshal / CloneSchemas / Resolve of the shared tree must not write into it, not even
	// beyond the lengths of its slices
	mkOrd := func(names ...string) []string { return append(make([]string, 0, len(names)+6), names...) }
	lit := &jsonschema.Schema{
		Type: "object",
		Properties: map[string]*jsonschema.Schema{
			"a": {Type: "integer"}, "b": {Type: "string"}, "c": {Types: append(make([]string, 0, 4), "null", "boolean")},
			"d": {Type: "object", Properties: map[string]*jsonschema.Schema{"x": {}, "y": {Type: "null"}, "z": {}}, PropertyOrder: mkOrd("y")},
		},
		PropertyOrder: mkOrd("b"),
		Required:      mkOrd("a"),
		AllOf:         append(make([]*jsonschema.Schema, 0, 4), &jsonschema.Schema{MinProperties: jsonschema.Ptr(0)}),
		Enum:          append(make([]any, 0, 4), map[string]any{"a": 1.0, "b": "s"}, map[string]any{}),
	}
	wantLit, err := json.Marshal(lit)
	if err != nil {
		panic(err)
	}
	// For with SHARED ForOptions: the TypeSchemas entries are caller-owned Schema values (their slices with spare
	// capacity, as a decoded or appended-to schema has); the overridden type is reached by value, through a
	// pointer and as an element type.  The expected schema comes from a private copy of the options.
	mkOvOpts := func() *jsonschema.ForOptions {
		return &jsonschema.ForOptions{TypeSchemas: map[reflect.Type]*jsonschema.Schema{
			reflect.TypeFor[stressOv](): {Types: append(make([]string, 0, 8), "string", "number", "boolean"),
				Enum: append(make([]any, 0, 4), "x", 1.0), Required: mkOrd("q"), PropertyOrder: mkOrd("q"),
				Properties: map[string]*jsonschema.Schema{"q": {Types: append(make([]string, 0, 4), "integer", "string")}}},
		}}
	}
	ovOpts := mkOvOpts()
	wantOv, err := jsonschema.For[stressOvT](mkOvOpts())
	if err != nil {
		panic(err)
	}
	wantOvBytes, _ := json.Marshal(wantOv)
	wantOvShared, _ := json.Marshal(ovOpts.TypeSchemas[reflect.TypeFor[stressOv]()])
	var remote jsonschema.Schema
	json.Unmarshal([]byte(`{"$defs":{"t":{"$anchor":"a","type":"integer"}}}`), &remote)
	loader := func(u *url.URL) (*jsonschema.Schema, error) { return &remote, nil }
	mkRoot := func(d7 bool) *jsonschema.Schema {
		var r jsonschema.Schema
		txt := `{"properties":{"p":{"$ref":"http://h/rem.json#a"}}}`
		if d7 {
			txt = `{"$schema":"http://json-schema.org/draft-07/schema#","properties":{"p":{"$ref":"http://h/rem.json#/$defs/t"}}}`
		}
		json.Unmarshal([]byte(txt), &r)
		return &r
	}
	// first use of a FRESH Resolved from several goroutines at once (anything initialised lazily
	// on the first ApplyDefaults / Validate would be written concurrently)
	for round := 0; round < 12; round++ {
		var fs jsonschema.Schema
		// (cfg: absent from the instance and without a default of its own - whether it is created depends on defaults
		// found DEEP below it, past many default-less members: a look-ahead that is answered before it is finished,
		// or cached half-done, gives some of the concurrent first calls {} instead)
		wide := ""
		for i := 0; i < 40; i++ {
			wide += fmt.Sprintf(`"n%d":{"properties":{"x%d":{"properties":{"y":{"type":"integer"}}}}},`, i, i)
		}
		json.Unmarshal([]byte(`{"properties":{"cfg":{"properties":{`+wide+`"inner":{"properties":{"m":{"properties":{"z":{"default":1}}}}}}},"a":{"default":1},"r":{"default":"never"},"o":{"properties":{"x":{"default":"d"}},"required":["y"]}},
		  "required":["r","q1","q2","q3","q4","q5","q6","q7","q8"],"minProperties":1,"maxProperties":9,"patternProperties":{"^z":{"pattern":"^a"}}}`), &fs)
		frs, err := fs.Resolve(nil)
		if err != nil {
			panic(err)
		}
		var wg0 sync.WaitGroup
		for g := 0; g < G; g++ {
			wg0.Add(1)
			go func(g int) {
				defer wg0.Done()
				var inst any = map[string]any{"o": map[string]any{}}
				err := frs.ApplyDefaults(&inst)
				want := map[string]any{"a": 1.0, "o": map[string]any{"x": "d"}, "cfg": map[string]any{"inner": map[string]any{"m": map[string]any{"z": 1.0}}}}
				if err != nil || !reflect.DeepEqual(inst, want) {
					mu.Lock()
					addFail("concurrent-first-defaults", "first ApplyDefaults on a fresh Resolved", want, fmt.Sprint(inst, err))
					mu.Unlock()
				}
				got := frs.Validate(map[string]any{"r": 1.0, "zz": "ab"}) == nil
				if got {
					mu.Lock()
					addFail("concurrent-first-validate", "first Validate on a fresh Resolved", false, got)
					mu.Unlock()
				}
				mu.Lock()
				res.Evaluations += 2
				mu.Unlock()
			}(g)
		}
		wg0.Wait()
	}
	res.Cases++
	var wg sync.WaitGroup
	for g := 0; g < G; g++ {
		wg.Add(1)
		go func(g int) {
			defer wg.Done()
			for m := 0; m < M; m++ {
				s, err := jsonschema.For[stressT](nil)
				b, _ := json.Marshal(s)
				if err != nil || !bytes.Equal(b, wantForBytes) {
					mu.Lock()
					addFail("concurrent-for", "For[stressT]", string(wantForBytes), string(b))
					mu.Unlock()
				}
				{
					s, err := jsonschema.For[stressOvT](ovOpts)
					b, _ := json.Marshal(s)
					if err != nil || !bytes.Equal(b, wantOvBytes) {
						mu.Lock()
						addFail("concurrent-for", "For[stressOvT] with shared ForOptions (TypeSchemas)", string(wantOvBytes), fmt.Sprint(string(b), err))
						mu.Unlock()
					}
					sb, err := json.Marshal(ovOpts.TypeSchemas[reflect.TypeFor[stressOv]()])
					if err != nil || !bytes.Equal(sb, wantOvShared) {
						mu.Lock()
						addFail("concurrent-marshal", "Marshal of the shared TypeSchemas entry while For uses it", string(wantOvShared), fmt.Sprint(string(sb), err))
						mu.Unlock()
					}
				}
				var inst any = map[string]any{}
				if err := drs.ApplyDefaults(&inst); err != nil || !reflect.DeepEqual(inst, map[string]any{"a": 1.0, "o": map[string]any{"x": "d"}}) {
					mu.Lock()
					addFail("concurrent-defaults", "ApplyDefaults", `{"a":1,"o":{"x":"d"}}`, fmt.Sprint(inst, err))
					mu.Unlock()
				}
				{
					var inst any = map[string]any{}
					err := ords.ApplyDefaults(&inst)
					b, _ := json.Marshal(inst)
					if err != nil || !bytes.Equal(b, wantODText) {
						mu.Lock()
						addFail("concurrent-defaults", "ApplyDefaults inserting container defaults (ValidateDefaults Resolved)", string(wantODText), fmt.Sprint(string(b), err))
						mu.Unlock()
					}
					// the caller owns its instance: write into everything that was inserted
					scribbleInstance(inst, g*1000+m)
				}
				{
					b, err := json.Marshal(lit)
					if err != nil || !bytes.Equal(b, wantLit) {
						mu.Lock()
						addFail("concurrent-marshal", "Marshal of a shared Schema literal with spare slice capacity", string(wantLit), fmt.Sprint(string(b), err))
						mu.Unlock()
					}
					c := lit.CloneSchemas()
					if (g+m)%2 == 0 {
						c.Properties["extra"] = &jsonschema.Schema{} // the clone's owner edits ITS tree
						delete(c.Properties, "extra")
					}
					if b, err := json.Marshal(c); err != nil || !bytes.Equal(b, wantLit) {
						mu.Lock()
						addFail("concurrent-clone", "Marshal of a private clone of the shared literal", string(wantLit), fmt.Sprint(string(b), err))
						mu.Unlock()
					}
					if _, err := lit.Resolve(nil); err != nil {
						mu.Lock()
						addFail("concurrent-resolve", "Resolve of the shared literal", "nil", err.Error())
						mu.Unlock()
					}
				}
				{
					// a schema nobody has resolved before (fresh regular expressions): whatever Resolve memoises
					// process-wide is written while the other goroutines resolve theirs
					var fresh jsonschema.Schema
					txt := fmt.Sprintf(`{"properties":{"s":{"pattern":"^g%d_%d[a-z]*$"}},"patternProperties":{"^k%d_%d":{"type":"integer"}}}`, g, m, g, m)
					json.Unmarshal([]byte(txt), &fresh)
					frs, err := fresh.Resolve(nil)
					okv := err == nil && frs.Validate(map[string]any{"s": fmt.Sprintf("g%d_%dab", g, m), fmt.Sprintf("k%d_%dx", g, m): 1.0}) == nil &&
						frs.Validate(map[string]any{"s": "nope"}) != nil && frs.Validate(map[string]any{fmt.Sprintf("k%d_%dx", g, m): "s"}) != nil
					if !okv {
						mu.Lock()
						addFail("concurrent-resolve", "Resolve + Validate of a schema with fresh patterns", "resolves; T,F,F", fmt.Sprint(err))
						mu.Unlock()
					}
				}
				if _, err := vds.Resolve(&jsonschema.ResolveOptions{ValidateDefaults: true}); err != nil {
					mu.Lock()
					addFail("concurrent-validate-defaults", "Resolve(ValidateDefaults)", "nil", err.Error())
					mu.Unlock()
				}
				{
					// Validate calls racing with the ValidateDefaults resolves
					sc := concScenarios[(g+m)%2]
					rs0 := stressShared[sc.ID]
					var v any
					json.Unmarshal([]byte(sc.I1), &v)
					if got := rs0.rs.Validate(v) == nil; got != rs0.want {
						mu.Lock()
						addFail("concurrent-validate", fmt.Sprintf("scenario %d during ValidateDefaults resolves", sc.ID), rs0.want, got)
						mu.Unlock()
					}
				}
				root := mkRoot((g+m)%2 == 0)
				rs, err := root.Resolve(&jsonschema.ResolveOptions{BaseURI: "http://h/root.json", Loader: loader})
				if err != nil {
					mu.Lock()
					addFail("concurrent-resolve-shared-loader", "Resolve with a memoising Loader", "nil", err.Error())
					mu.Unlock()
				} else if (rs.Validate(map[string]any{"p": 1.0}) == nil) != true || (rs.Validate(map[string]any{"p": "s"}) == nil) != false {
					mu.Lock()
					addFail("concurrent-resolve-shared-loader", "verdicts through a shared Loader document", "T,F", "differs")
					mu.Unlock()
				}
				mu.Lock()
				res.Evaluations += 3
				mu.Unlock()
			}
		}(g)
	}
	wg.Wait()
	res.Cases += 3
	res.DistinctNontrivil = res.Cases
	res.Samples = append(res.Samples, map[string]any{"goroutines": G, "calls_per_goroutine": M,
		"shared": "Resolved (Validate, ApplyDefaults), Schema tree (Marshal, CloneSchemas, Resolve), type caches (For), Loader document"})
	return res
}

// scribbleInstance writes into every container of a JSON-shaped instance.
func scribbleInstance(v any, tag int) {
	switch x := v.(type) {
	case map[string]any:
		for _, c := range x {
			scribbleInstance(c, tag)
		}
		x["scribble"] = tag
	case []any:
		for i, c := range x {
			scribbleInstance(c, tag)
			if _, isC := c.(map[string]any); !isC {
				if _, isS := c.([]any); !isS {
					x[i] = tag
				}
			}
		}
	}
}
