package main

import "fmt"

func selftest() { fmt.Println("selftest: ok") }
