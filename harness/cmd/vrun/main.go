// vrun replays specification behaviours (CASE lines printed by TLC) against the
// real github.com/google/jsonschema-go code and compares the property-level
// observables with what the specification predicts.
//
//	vrun -family eval -prop C01 -in tlc1.out -in tlc2.out -out result.json
//
// Exit status: 0 always when the replay itself ran (violations are reported in
// the result file; the ./check driver decides the exit code); 3 on usage or
// infrastructure errors.
package main

import (
	"bufio"
	"crypto/sha256"
	"encoding/hex"
	"encoding/json"
	"flag"
	"fmt"
	"os"
	"runtime"
	"runtime/debug"
	"sort"
	"strings"
	"sync"
	"time"

	"verif/harness/abs"
)

// A Failure is one concrete case on which the real code's observable differs
// from the prediction.
type Failure struct {
	Kind     string   `json:"kind"` // verdict | resolve | unmarshal | panic | hang | ...
	Family   string   `json:"family"`
	Source   string   `json:"source"` // input file and line
	Abstract any      `json:"abstract,omitempty"`
	Concrete any      `json:"concrete,omitempty"`
	Expected any      `json:"expected,omitempty"`
	Got      any      `json:"got,omitempty"`
	Detail   string   `json:"detail,omitempty"`
	Features []string `json:"features,omitempty"` // for known-findings matching
	Instance string   `json:"instance,omitempty"` // WHAT fails (type and observed misbehaviour): a known finding lists its instances
	Replay   any      `json:"replay,omitempty"`   // {hdr, case}: enough to re-run this case alone
}

// A CaseResult summarises the replay of one CASE line.
type CaseResult struct {
	Evals      int
	Nontrivial bool
	Key        string
	Failures   []Failure
	Sample     any
	Skipped    int
	Observed   string // observables that must not depend on the process (C14): folded into Result.Digest
}

type Header map[string]any

type Family struct {
	// Run replays one case.  hdr holds the non-CASE tagged lines of the same file
	// (e.g. INSTS).
	Run func(hdr Header, c any, src string) CaseResult
	// Describe renders the concrete input of a case for reports about panics and hangs (optional).
	Describe func(c any) any
}

var families = map[string]*Family{}

type inputs []string

func (i *inputs) String() string     { return strings.Join(*i, ",") }
func (i *inputs) Set(s string) error { *i = append(*i, s); return nil }

type Result struct {
	Family            string    `json:"family"`
	Property          string    `json:"property"`
	Cases             int       `json:"cases"`
	Evaluations       int       `json:"evaluations"`
	DistinctNontrivil int       `json:"distinct_nontrivial"`
	Skipped           int       `json:"skipped"`
	Failures          []Failure `json:"failures"`
	NFailures         int       `json:"n_failures"`
	Samples           []any     `json:"samples"`
	WallS             float64   `json:"wall_s"`
	Digest            string    `json:"digest,omitempty"` // order-independent hash of all Observed strings
}

// parseTagged extracts <<"TAG", "json">> lines.
func parseTagged(line string) (tag string, payload []byte, ok bool) {
	if !strings.HasPrefix(line, `<<"`) || !strings.HasSuffix(line, `">>`) {
		return "", nil, false
	}
	rest := line[3:]
	i := strings.Index(rest, `", "`)
	if i < 0 {
		return "", nil, false
	}
	tag = rest[:i]
	lit := rest[i+3 : len(rest)-2] // the quoted TLA+ string literal
	var s string
	if err := json.Unmarshal([]byte(lit), &s); err != nil {
		return "", nil, false
	}
	return tag, []byte(s), true
}

var caseTimeout = 30 * time.Second

func runCase(f *Family, hdr Header, c any, src string) (res CaseResult) {
	done := make(chan CaseResult, 1)
	go func() {
		defer func() {
			if r := recover(); r != nil {
				done <- CaseResult{Evals: 1, Failures: []Failure{{Kind: "panic", Source: src, Abstract: c, Concrete: describeCase(f, c),
					Expected: "the call returns, with a value or an error", Got: fmt.Sprintf("panic: %v", r),
					Detail: fmt.Sprintf("%v\n%s", r, debug.Stack())}}}
			}
		}()
		done <- f.Run(hdr, c, src)
	}()
	select {
	case r := <-done:
		return r
	case <-time.After(caseTimeout):
		return CaseResult{Evals: 1, Failures: []Failure{{Kind: "hang", Source: src, Abstract: c, Concrete: describeCase(f, c),
			Expected: "the call returns, with a value or an error", Got: "no result within the deadline",
			Detail: fmt.Sprintf("no result after %s", caseTimeout)}}}
	}
}

func describeCase(f *Family, c any) (out any) {
	out = c
	if f.Describe != nil {
		defer func() { recover() }()
		out = f.Describe(c)
	}
	return out
}

var (
	genMu    sync.Mutex
	genCases []any
	genOut   = flag.String("gen-out", "", "gentypes: directory for types_gen.go")
	seedFlag = flag.Int64("seed", 1, "seed for random choices")
	progress *string
)

var propID string // the property the run is for (a few cases are read differently per property)

func main() {
	var ins inputs
	family := flag.String("family", "", "case family")
	prop := flag.String("prop", "", "property id (informational)")
	out := flag.String("out", "", "result file")
	maxReport := flag.Int("max-report", 12, "max failures kept in the result per failure signature")
	progress = flag.String("progress", "", "write the source of each case here before running it (slow; crash attribution)")
	flag.Var(&ins, "in", "TLC output file (repeatable)")
	flag.Parse()
	propID = *prop
	if err := abs.LoadPools(); err != nil {
		fmt.Fprintln(os.Stderr, "vrun: pools:", err)
		os.Exit(3)
	}
	if *family == "selftest" {
		selftest()
		return
	}
	if *family == "conc-record" || *family == "stress" || *family == "trace-record" {
		var r Result
		if *family == "conc-record" {
			r = concRecord(*concFlagOut, *concMaxEv)
		} else if *family == "trace-record" {
			r = traceRecord(*seedFlag)
		} else {
			r = runStress(*seedFlag)
		}
		r.Property = *prop
		data, _ := json.MarshalIndent(r, "", " ")
		if *out == "" {
			os.Stdout.Write(data)
		} else {
			os.WriteFile(*out, data, 0o644)
		}
		return
	}
	if *family == "gentypes" {
		families["gentypes"] = &Family{Run: func(hdr Header, c any, src string) CaseResult {
			genMu.Lock()
			genCases = append(genCases, c)
			genMu.Unlock()
			return CaseResult{Evals: 1}
		}}
	}
	f := families[*family]
	if f == nil {
		fmt.Fprintf(os.Stderr, "vrun: unknown family %q\n", *family)
		os.Exit(3)
	}
	start := time.Now()
	res := Result{Family: *family, Property: *prop}
	seen := map[string]bool{}
	perSig := map[string]int{}
	var digest [32]byte
	var mu sync.Mutex
	type job struct {
		hdr Header
		c   any
		src string
	}
	jobs := make(chan job, 256)
	var wg sync.WaitGroup
	nw := runtime.NumCPU()
	if *progress != "" {
		nw = 1
	}
	for w := 0; w < nw; w++ {
		wg.Add(1)
		go func() {
			defer wg.Done()
			for j := range jobs {
				if *progress != "" {
					os.WriteFile(*progress, []byte(j.src), 0o644)
				}
				r := runCase(f, j.hdr, j.c, j.src)
				mu.Lock()
				res.Cases++
				res.Evaluations += r.Evals
				res.Skipped += r.Skipped
				if r.Observed != "" {
					h := sha256.Sum256([]byte(r.Key + "\x00" + r.Observed))
					for i := range digest {
						digest[i] ^= h[i]
					}
				}
				if r.Nontrivial && r.Key != "" && !seen[r.Key] {
					seen[r.Key] = true
					res.DistinctNontrivil++
				}
				for _, fl := range r.Failures {
					res.NFailures++
					fl.Family = *family
					if fl.Replay == nil {
						fl.Replay = map[string]any{"hdr": j.hdr, "case": j.c}
					}
					// keep a bounded number of failures PER SIGNATURE (kind + features): a crowd of
					// known findings must never push a different failure out of the report
					sig := fl.Kind + "|" + strings.Join(fl.Features, ",") + "|" + fl.Instance
					perSig[sig]++
					if perSig[sig] <= *maxReport && len(res.Failures) < 40**maxReport {
						res.Failures = append(res.Failures, fl)
					}
				}
				if r.Sample != nil && (len(res.Samples) < 3 || (res.Cases%9973 == 0 && len(res.Samples) < 8)) {
					res.Samples = append(res.Samples, r.Sample)
				}
				mu.Unlock()
			}
		}()
	}
	for _, in := range ins {
		fh, err := os.Open(in)
		if err != nil {
			fmt.Fprintln(os.Stderr, "vrun:", err)
			os.Exit(3)
		}
		hdr := Header{}
		sc := bufio.NewScanner(fh)
		sc.Buffer(make([]byte, 1<<20), 1<<28)
		ln := 0
		for sc.Scan() {
			ln++
			tag, payload, ok := parseTagged(sc.Text())
			if !ok {
				continue
			}
			v, err := abs.Decode(payload)
			if err != nil {
				fmt.Fprintf(os.Stderr, "vrun: %s:%d: %v\n", in, ln, err)
				os.Exit(3)
			}
			if tag == "CASE" {
				jobs <- job{hdr, v, fmt.Sprintf("%s:%d", in, ln)}
			} else {
				// headers precede the cases of their file; copy-on-write so that
				// queued jobs keep the header they were read under
				nh := Header{}
				for k, x := range hdr {
					nh[k] = x
				}
				nh[tag] = v
				hdr = nh
			}
		}
		fh.Close()
	}
	close(jobs)
	wg.Wait()
	sort.Slice(res.Failures, func(i, j int) bool { return res.Failures[i].Source < res.Failures[j].Source })
	if *family == "gentypes" {
		if err := genTypesFile(genCases, *genOut); err != nil {
			fmt.Fprintln(os.Stderr, "vrun: gentypes:", err)
			os.Exit(3)
		}
	}
	res.WallS = time.Since(start).Seconds()
	if digest != [32]byte{} {
		res.Digest = hex.EncodeToString(digest[:])
	}
	data, _ := json.MarshalIndent(res, "", " ")
	if *out == "" {
		os.Stdout.Write(data)
		fmt.Println()
	} else if err := os.WriteFile(*out, data, 0o644); err != nil {
		fmt.Fprintln(os.Stderr, "vrun:", err)
		os.Exit(3)
	}
}
