package main

import (
	"bytes"
	"encoding/json"
	"fmt"
	"net/url"
	"reflect"
	"sort"
	"strings"

	"github.com/google/jsonschema-go/jsonschema"
	"verif/harness/abs"
)

func init() {
	families["history"] = &Family{Run: runHistory}
	families["pure"] = &Family{Run: runPure}
}

// dump is a deterministic deep fingerprint of a Go value: it follows pointers,
// sorts map keys and prints every field. Two dumps are equal iff the object
// graphs have the same content (identity of pointers is not recorded).
func dump(v any) string {
	var b strings.Builder
	dumpValue(&b, reflect.ValueOf(v), 0, true)
	return b.String()
}

// dumpShape is dump without the spare capacity of slices: for comparing two DIFFERENT objects.
func dumpShape(v any) string {
	var b strings.Builder
	dumpValue(&b, reflect.ValueOf(v), 0, false)
	return b.String()
}

func dumpValue(b *strings.Builder, v reflect.Value, depth int, spare bool) {
	if depth > 200 {
		b.WriteString("<deep>")
		return
	}
	if !v.IsValid() {
		b.WriteString("nil")
		return
	}
	switch v.Kind() {
	case reflect.Pointer, reflect.Interface:
		if v.IsNil() {
			b.WriteString("nil")
			return
		}
		b.WriteString("&")
		dumpValue(b, v.Elem(), depth+1, spare)
	case reflect.Struct:
		b.WriteString(v.Type().Name() + "{")
		for i := 0; i < v.NumField(); i++ {
			if v.Field(i).IsZero() {
				continue
			}
			b.WriteString(v.Type().Field(i).Name + ":")
			dumpValue(b, v.Field(i), depth+1, spare)
			b.WriteString(";")
		}
		b.WriteString("}")
	case reflect.Slice, reflect.Array:
		if v.Kind() == reflect.Slice && v.IsNil() {
			b.WriteString("nil[]")
			return
		}
		b.WriteString("[")
		for i := 0; i < v.Len(); i++ {
			dumpValue(b, v.Index(i), depth+1, spare)
			b.WriteString(",")
		}
		b.WriteString("]")
		// the spare capacity belongs to the owner of the slice as well: a callee that appends or inserts in
		// place writes there (and any other slice of the same backing array sees it)
		if spare && v.Kind() == reflect.Slice && v.Cap() > v.Len() {
			full := v.Slice(0, v.Cap())
			b.WriteString("+spare[")
			for i := v.Len(); i < full.Len(); i++ {
				dumpValue(b, full.Index(i), depth+1, spare)
				b.WriteString(",")
			}
			b.WriteString("]")
		}
	case reflect.Map:
		if v.IsNil() {
			b.WriteString("nilmap")
			return
		}
		keys := v.MapKeys()
		sort.Slice(keys, func(i, j int) bool { return fmt.Sprint(keys[i]) < fmt.Sprint(keys[j]) })
		b.WriteString("map{")
		for _, k := range keys {
			fmt.Fprintf(b, "%q:", fmt.Sprint(k))
			dumpValue(b, v.MapIndex(k), depth+1, spare)
			b.WriteString(",")
		}
		b.WriteString("}")
	default:
		fmt.Fprintf(b, "%#v", v.Interface())
	}
}

// Family "history" (C14): CASE {"hist": [{op, r, i, res}], rootA, rootB, rem, rootURI, remURI, insts}
// The Loader memoises: it hands out the SAME *Schema object every time.
func runHistory(hdr Header, c any, src string) CaseResult {
	cm := abs.Obj(c)
	res := CaseResult{}
	roots := map[string]*jsonschema.Schema{}
	for _, r := range []string{"A", "B"} {
		var s jsonschema.Schema
		if err := json.Unmarshal([]byte(abs.SchemaJSON(cm["root"+r])), &s); err != nil {
			panic(err)
		}
		roots[r] = &s
	}
	var rem jsonschema.Schema
	if err := json.Unmarshal([]byte(abs.SchemaJSON(cm["rem"])), &rem); err != nil {
		panic(err)
	}
	remURI := abs.URIText(cm["remURI"])
	loader := func(u *url.URL) (*jsonschema.Schema, error) {
		if u.String() == remURI {
			return &rem, nil // memoised: same object every time
		}
		return nil, fmt.Errorf("no document at %s", u)
	}
	insts := abs.Seq(cm["insts"])
	resolved := map[string]*jsonschema.Resolved{}
	snap := func() string { return dump(roots["A"]) + "|" + dump(roots["B"]) + "|" + dump(&rem) }
	var trail []string
	modified := false
	hb, _ := json.Marshal(cm["hist"])
	res.Key = string(hb)
	for _, h := range abs.Seq(cm["hist"]) {
		hm := abs.Obj(h)
		op, r, want := hm["op"].(string), hm["r"].(string), hm["res"].(string)
		before := snap()
		var got string
		res.Evals++
		switch op {
		case "resolve":
			rs, err := roots[r].Resolve(&jsonschema.ResolveOptions{BaseURI: abs.URIText(cm["rootURI"]), Loader: loader})
			if err == nil {
				got = "ok"
				resolved[r] = rs
			} else {
				got = "err"
			}
		case "validate":
			in := insts[abs.Int(hm["i"])-1]
			ij := abs.ValueJSON(in)
			var v any
			json.Unmarshal([]byte(ij), &v)
			ib := dump(v)
			if resolved[r].Validate(v) == nil {
				got = "T"
			} else {
				got = "F"
			}
			if dump(v) != ib {
				res.Failures = append(res.Failures, Failure{Kind: "instance-modified", Source: src, Abstract: c,
					Expected: ib, Got: dump(v)})
			}
		case "marshal":
			b1, err1 := json.Marshal(roots[r])
			b2, err2 := json.Marshal(roots[r])
			if err1 != nil || err2 != nil || !bytes.Equal(b1, b2) {
				got = "unstable"
			} else {
				got = want
			}
		}
		trail = append(trail, fmt.Sprintf("%s(%s,%v)=%s", op, r, hm["i"], got))
		if got != want {
			res.Failures = append(res.Failures, Failure{Kind: "history", Source: src, Abstract: c,
				Concrete: map[string]any{"calls_so_far": trail}, Expected: want, Got: got,
				Detail: "the result of a call depends on the calls made before it"})
			return res
		}
		if after := snap(); after != before && !modified {
			modified = true
			res.Failures = append(res.Failures, Failure{Kind: "input-modified", Source: src, Abstract: c,
				Concrete: map[string]any{"calls_so_far": trail}, Expected: before, Got: after,
				Detail: "a Schema object owned by the caller (root or Loader document) was modified"})
			// keep going: what the modification does to later calls is a separate observation (kind history)
		}
	}
	res.Nontrivial = len(trail) > 1
	res.Sample = map[string]any{"history": trail}
	return res
}

// Family "pure" (C14): the CASE lines of the eval families, replayed with
// snapshots around every call and every call repeated.
func runPure(hdr Header, c any, src string) CaseResult {
	cm := abs.Obj(c)
	insts := abs.Seq(hdr["INSTS"])
	if li, ok := cm["insts"]; ok {
		insts = abs.Seq(li)
	}
	u := universeOf(cm)
	res := CaseResult{Key: u.rootJSON}
	var s jsonschema.Schema
	if err := json.Unmarshal([]byte(u.rootJSON), &s); err != nil {
		return res
	}
	fail := func(kind string, exp, got any, detail string) CaseResult {
		res.Failures = append(res.Failures, Failure{Kind: kind, Source: src, Abstract: c, Concrete: u.concrete(),
			Expected: exp, Got: got, Detail: detail})
		return res
	}
	// the Loader memoises parsed documents: they are shared between Resolve calls
	memo := map[string]*jsonschema.Schema{}
	opts := func() *jsonschema.ResolveOptions {
		o := &jsonschema.ResolveOptions{BaseURI: u.baseURI}
		if len(u.remote) > 0 {
			o.Loader = func(uri *url.URL) (*jsonschema.Schema, error) {
				k := uri.String()
				if u.faults[k] {
					return nil, fmt.Errorf("fault")
				}
				if m, ok := memo[k]; ok {
					return m, nil
				}
				doc, ok := u.remote[k]
				if !ok {
					return nil, fmt.Errorf("no document at %s", k)
				}
				var ls jsonschema.Schema
				if err := json.Unmarshal([]byte(doc), &ls); err != nil {
					return nil, err
				}
				memo[k] = &ls
				return &ls, nil
			}
		}
		return o
	}
	snapAll := func() string {
		var parts []string
		parts = append(parts, dump(&s))
		keys := make([]string, 0, len(memo))
		for k := range memo {
			keys = append(keys, k)
		}
		sort.Strings(keys)
		for _, k := range keys {
			parts = append(parts, k+"="+dump(memo[k]))
		}
		return strings.Join(parts, "|")
	}
	m0, merr := json.Marshal(&s)
	before := dump(&s)
	rs1, err1 := s.Resolve(opts())
	res.Evals++
	if dump(&s) != before {
		return fail("resolve-modifies-schema", before, dump(&s), "Resolve modified the Schema tree it was given")
	}
	loaded := snapAll()
	rs2, err2 := s.Resolve(opts())
	res.Evals++
	// further Resolves (map iteration order differs from call to call)
	var more []*jsonschema.Resolved
	for k := 0; k < 6 && err1 == nil; k++ {
		r, e := s.Resolve(opts())
		res.Evals++
		if e != nil {
			return fail("resolve-nondeterministic", "nil", e.Error(), "resolving the same schema again gave another result")
		}
		more = append(more, r)
	}
	if (err1 == nil) != (err2 == nil) {
		return fail("resolve-nondeterministic", errText(err1), errText(err2), "resolving the same schema again gave another result")
	}
	if snapAll() != loaded {
		return fail("resolve-modifies-loaded", loaded, snapAll(), "the second Resolve modified the schema or a Loader document")
	}
	if err1 != nil {
		return res
	}
	var vec strings.Builder
	for i, in := range insts {
		if es, _ := abs.Seq(cm["exp"])[i].(string); es == "x" {
			continue
		}
		ij := abs.ValueJSON(in)
		var v any
		json.Unmarshal([]byte(ij), &v)
		ib := dump(v)
		a := rs1.Validate(v) == nil
		b := rs1.Validate(v) == nil
		c2 := rs2.Validate(v) == nil
		res.Evals += 3
		if a != b || a != c2 {
			return fail("validate-nondeterministic", a, []bool{b, c2}, "validating the same instance again gave another verdict: "+ij)
		}
		for _, r := range more {
			res.Evals++
			if (r.Validate(v) == nil) != a {
				return fail("resolve-nondeterministic", a, !a, "another Resolve of the same schema gives another verdict for "+ij)
			}
		}
		if dump(v) != ib {
			return fail("validate-modifies-instance", ib, dump(v), "Validate modified the instance")
		}
		if a {
			vec.WriteByte('T')
		} else {
			vec.WriteByte('F')
		}
	}
	// the verdict is a function of (schema, instance) alone: the same instances in the opposite order, on the
	// Resolved that has seen the whole forward history and on one that has seen nothing yet
	if fresh, ferr := s.Resolve(opts()); ferr == nil {
		verd := vec.String()
		k := len(verd)
		for i := len(insts) - 1; i >= 0; i-- {
			if es, _ := abs.Seq(cm["exp"])[i].(string); es == "x" {
				continue
			}
			k--
			ij := abs.ValueJSON(insts[i])
			var v any
			json.Unmarshal([]byte(ij), &v)
			want := verd[k] == 'T'
			res.Evals += 2
			if got := rs1.Validate(v) == nil; got != want {
				return fail("validate-nondeterministic", want, got, "the verdict depends on which instances were validated before on the same Resolved: "+ij)
			}
			if got := fresh.Validate(v) == nil; got != want {
				return fail("validate-nondeterministic", want, got, "a fresh Resolved validating the instances in the opposite order gives another verdict: "+ij)
			}
		}
	}
	if snapAll() != loaded {
		return fail("validate-modifies-schema", loaded, snapAll(), "Validate modified the schema or a Loader document")
	}
	m1, merr1 := json.Marshal(&s)
	res.Evals++
	if (merr == nil) != (merr1 == nil) || !bytes.Equal(m0, m1) {
		return fail("marshal-unstable", string(m0), string(m1), "Marshal before and after Resolve/Validate differ")
	}
	if dump(&s) != before {
		return fail("marshal-modifies-schema", before, dump(&s), "Marshal modified the schema")
	}
	res.Nontrivial = strings.Contains(vec.String(), "T") && strings.Contains(vec.String(), "F")
	res.Observed = vec.String() + string(m1)
	res.Sample = map[string]any{"schema": u.concrete(), "verdicts": vec.String()}
	return res
}

func init() {
	families["purelit"] = &Family{Run: runPureLit}
}

// Family "purelit" (C14): Schema LITERALS (the CASE lines of the codec families PO
// and RT): Marshal and Resolve must leave the tree - including PropertyOrder,
// Required, Enum and the other non-schema slices and maps - exactly as it was,
// and repeated Marshal calls must agree.
func runPureLit(hdr Header, c any, src string) CaseResult {
	cm := abs.Obj(c)
	res := CaseResult{Evals: 1}
	var s *jsonschema.Schema
	if sv, ok := cm["s"]; ok {
		s = schemaGo(sv)
	} else {
		props := map[string]*jsonschema.Schema{}
		for i, n := range abs.Seq(cm["props"]) {
			props[abs.Str(n.(string))] = &jsonschema.Schema{MinLength: jsonschema.Ptr(i)}
		}
		// spare capacity: an in-place edit of the caller's slice would not reallocate
		order := make([]string, 0, 8)
		for _, n := range abs.Seq(cm["order"]) {
			order = append(order, abs.Str(n.(string)))
		}
		s = &jsonschema.Schema{Type: "object", Properties: props, PropertyOrder: order}
	}
	kb, _ := json.Marshal(c)
	res.Key = string(kb)
	before := dump(s)
	b1, e1 := json.Marshal(s)
	if d := dump(s); d != before {
		res.Failures = append(res.Failures, Failure{Kind: "marshal-modifies-schema", Source: src, Abstract: c, Expected: before, Got: d,
			Detail: "Marshal modified the Schema value it was given"})
		return res
	}
	for i := 0; i < 3; i++ {
		b2, e2 := json.Marshal(s)
		res.Evals++
		if (e1 == nil) != (e2 == nil) || !bytes.Equal(b1, b2) {
			res.Failures = append(res.Failures, Failure{Kind: "marshal-unstable", Source: src, Abstract: c, Expected: string(b1) + errText(e1), Got: string(b2) + errText(e2),
				Detail: "marshaling the same Schema value again gave another result"})
			return res
		}
	}
	s.Resolve(nil)
	res.Evals++
	if d := dump(s); d != before {
		res.Failures = append(res.Failures, Failure{Kind: "resolve-modifies-schema", Source: src, Abstract: c, Expected: before, Got: d,
			Detail: "Resolve modified the Schema value it was given"})
		return res
	}
	res.Nontrivial = true
	res.Observed = string(b1)
	res.Sample = map[string]any{"marshaled": json.RawMessage(b1)}
	if e1 != nil {
		res.Sample = map[string]any{"marshal_error": e1.Error()}
	}
	return res
}
