package main

import (
	"bytes"
	"encoding/json"
	"reflect"

	"github.com/google/jsonschema-go/jsonschema"
	"verif/harness/abs"
)

func init() {
	families["clone"] = &Family{Run: runClone}
}

var (
	tSchemaPtr   = reflect.TypeOf((*jsonschema.Schema)(nil))
	tSchemaSlice = reflect.TypeOf([]*jsonschema.Schema(nil))
	tSchemaMap   = reflect.TypeOf(map[string]*jsonschema.Schema(nil))
)

// walkSchemas visits every *Schema reachable from root through ANY field of
// type *Schema, []*Schema or map[string]*Schema - found by reflection over the
// struct, independently of the package's own field table.
func walkSchemas(root *jsonschema.Schema, f func(*jsonschema.Schema)) {
	if root == nil {
		return
	}
	f(root)
	v := reflect.ValueOf(root).Elem()
	for i := 0; i < v.NumField(); i++ {
		fv := v.Field(i)
		switch fv.Type() {
		case tSchemaPtr:
			walkSchemas(fv.Interface().(*jsonschema.Schema), f)
		case tSchemaSlice:
			for _, c := range fv.Interface().([]*jsonschema.Schema) {
				walkSchemas(c, f)
			}
		case tSchemaMap:
			for _, c := range fv.Interface().(map[string]*jsonschema.Schema) {
				walkSchemas(c, f)
			}
		}
	}
}

func pointerSet(root *jsonschema.Schema) map[*jsonschema.Schema]bool {
	set := map[*jsonschema.Schema]bool{}
	walkSchemas(root, func(s *jsonschema.Schema) { set[s] = true })
	return set
}

// scribble assigns to every field of every Schema object of the tree, and to
// every element of its schema slices and maps.
func scribble(root *jsonschema.Schema) {
	var nodes []*jsonschema.Schema
	walkSchemas(root, func(s *jsonschema.Schema) { nodes = append(nodes, s) })
	for _, n := range nodes {
		v := reflect.ValueOf(n).Elem()
		for i := 0; i < v.NumField(); i++ {
			fv := v.Field(i)
			switch fv.Type() {
			case tSchemaSlice:
				sl := fv.Interface().([]*jsonschema.Schema)
				for j := range sl {
					sl[j] = &jsonschema.Schema{Title: "scribbled"}
				}
				// ... and the list itself grows (an assignment to the field): within its capacity append writes
				// into the backing array, which must not be the other tree's
				if sl != nil && fv.CanSet() {
					fv.Set(reflect.ValueOf(append(sl, &jsonschema.Schema{Title: "appended"}, &jsonschema.Schema{Title: "appended too"})))
				}
			case tSchemaMap:
				m := fv.Interface().(map[string]*jsonschema.Schema)
				for k := range m {
					m[k] = &jsonschema.Schema{Title: "scribbled"}
				}
				if m != nil {
					m["scribbled-key"] = &jsonschema.Schema{}
				}
			}
		}
		*n = jsonschema.Schema{Title: "scribbled"}
	}
}

// Family "clone" (C20): CASE {"s": schema tree, "nodes": number of Schema objects}
func runClone(hdr Header, c any, src string) CaseResult {
	cm := abs.Obj(c)
	res := CaseResult{Evals: 1, Nontrivial: abs.Int(cm["nodes"]) > 1}
	fail := func(kind string, exp, got any) CaseResult {
		res.Failures = append(res.Failures, Failure{Kind: kind, Source: src, Abstract: c, Expected: exp, Got: got})
		return res
	}
	orig := schemaGo(cm["s"])
	before, err := json.Marshal(orig)
	if err != nil {
		return fail("marshal", "Marshal succeeds", err.Error())
	}
	res.Key = string(before)
	clone := orig.CloneSchemas()
	po, pc := pointerSet(orig), pointerSet(clone)
	if len(po) != abs.Int(cm["nodes"]) {
		return fail("harness", abs.Int(cm["nodes"]), len(po)) // the literal builder disagrees with the spec
	}
	if len(pc) != len(po) {
		return fail("clone-size", len(po), len(pc))
	}
	for p := range pc {
		if po[p] {
			return fail("shared-node", "no Schema object shared between original and clone", "shared: "+string(mustJSON(p)))
		}
	}
	cb, err := json.Marshal(clone)
	if err != nil || !bytes.Equal(cb, before) {
		return fail("clone-differs", string(before), string(cb))
	}
	// equal in every field, including which slices and maps are nil and which are empty
	if do, dc := dumpShape(orig), dumpShape(clone); do != dc {
		return fail("clone-differs", do, dc)
	}
	// the same for an original that has been USED (resolved, validated against) before it is cloned: whatever using
	// a tree leaves behind in it - in any field, exported or not - the clone reaches no Schema object of the original
	{
		used := schemaGo(cm["s"])
		if rs, rerr := used.Resolve(nil); rerr == nil {
			for _, in := range []any{nil, 1.0, "a", []any{1.0, "a"}, map[string]any{"a": 1.0, "ab": "a"}} {
				rs.Validate(in)
			}
		}
		uclone := used.CloneSchemas()
		res.Evals++
		du, dc := deepSchemaPointers(used), deepSchemaPointers(uclone)
		for p := range dc {
			if du[p] {
				return fail("shared-node", "no Schema object of a resolved original reachable from its clone (through any field)",
					"the clone of a tree that was resolved before reaches a Schema object of the original")
			}
		}
		if ub, err := json.Marshal(uclone); err != nil || !bytes.Equal(ub, before) {
			return fail("clone-differs", string(before), string(ub))
		}
	}
	// both under one parent still resolve (the tree check of Resolve)
	parent := &jsonschema.Schema{AllOf: []*jsonschema.Schema{orig, clone}}
	if _, rerr := (&jsonschema.Schema{AllOf: []*jsonschema.Schema{schemaGo(cm["s"])}}).Resolve(nil); rerr == nil {
		res.Evals++
		if _, err := parent.Resolve(nil); err != nil {
			return fail("parent-resolve", "a parent holding the original and the clone resolves", err.Error())
		}
	}
	// assigning to any field of any object of the clone leaves the original unchanged
	scribble(clone)
	after, _ := json.Marshal(orig)
	res.Evals++
	if !bytes.Equal(after, before) {
		return fail("clone-aliases-original", string(before), string(after))
	}
	// ... and the other way round
	clone2 := orig.CloneSchemas()
	scribble(orig)
	after2, _ := json.Marshal(clone2)
	res.Evals++
	if !bytes.Equal(after2, before) {
		return fail("original-aliases-clone", string(before), string(after2))
	}
	res.Sample = map[string]any{"tree": json.RawMessage(before), "schema_objects": len(po)}
	return res
}

func mustJSON(v any) []byte {
	b, err := json.Marshal(v)
	if err != nil {
		return []byte(err.Error())
	}
	return b
}

// deepSchemaPointers returns the addresses of all Schema objects reachable from root through ANY field, exported or
// not (reflection may read unexported fields; it only cannot hand them out).
func deepSchemaPointers(root *jsonschema.Schema) map[uintptr]bool {
	out := map[uintptr]bool{}
	type key struct {
		p uintptr
		t reflect.Type
	}
	seen := map[key]bool{}
	var walk func(v reflect.Value, depth int)
	walk = func(v reflect.Value, depth int) {
		if !v.IsValid() || depth > 64 {
			return
		}
		switch v.Kind() {
		case reflect.Pointer:
			if v.IsNil() {
				return
			}
			k := key{v.Pointer(), v.Type()}
			if seen[k] {
				return
			}
			seen[k] = true
			if v.Type() == reflect.TypeOf(root) {
				out[v.Pointer()] = true
			}
			walk(v.Elem(), depth+1)
		case reflect.Interface:
			if !v.IsNil() {
				walk(v.Elem(), depth+1)
			}
		case reflect.Struct:
			for i := 0; i < v.NumField(); i++ {
				walk(v.Field(i), depth+1)
			}
		case reflect.Slice, reflect.Array:
			if v.Kind() == reflect.Slice && v.IsNil() {
				return
			}
			for i := 0; i < v.Len(); i++ {
				walk(v.Index(i), depth+1)
			}
		case reflect.Map:
			if v.IsNil() {
				return
			}
			it := v.MapRange()
			for it.Next() {
				walk(it.Key(), depth+1)
				walk(it.Value(), depth+1)
			}
		}
	}
	walk(reflect.ValueOf(root), 0)
	return out
}
