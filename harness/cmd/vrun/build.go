package main

import (
	"encoding/json"
	"fmt"
	"strconv"

	"github.com/google/jsonschema-go/jsonschema"
	"verif/harness/abs"
)

// schemaGo builds a *jsonschema.Schema LITERAL (not via JSON) from an abstract
// schema record: a present empty sequence/map becomes the non-nil empty Go
// slice/map, an absent field stays nil/zero.
func schemaGo(s any) *jsonschema.Schema {
	m := abs.Obj(s)
	if bv, ok := m["bool"]; ok {
		if bv.(bool) {
			return &jsonschema.Schema{}
		}
		return &jsonschema.Schema{Not: &jsonschema.Schema{}}
	}
	out := &jsonschema.Schema{}
	num := func(v any) *float64 {
		var f float64
		if err := json.Unmarshal([]byte(abs.P.Numbers[abs.Int(v)].Text), &f); err != nil {
			panic(err)
		}
		return &f
	}
	ip := func(v any) *int { i := abs.Int(v); return &i }
	seqS := func(v any) []*jsonschema.Schema {
		out := make([]*jsonschema.Schema, 0, len(abs.Seq(v))+3) // spare capacity: in-place inserts/appends by the callee would show
		for _, e := range abs.Seq(v) {
			out = append(out, schemaGo(e))
		}
		return out
	}
	mapS := func(v any, conc func(string) string) map[string]*jsonschema.Schema {
		out := map[string]*jsonschema.Schema{}
		for k, e := range abs.Obj(v) {
			out[conc(k)] = schemaGo(e)
		}
		return out
	}
	names := func(v any) []string {
		out := make([]string, 0, len(abs.Seq(v))+3)
		for _, e := range abs.Seq(v) {
			out = append(out, abs.Str(e.(string)))
		}
		return out
	}
	mapNames := func(v any) map[string][]string {
		out := map[string][]string{}
		for k, e := range abs.Obj(v) {
			out[abs.Str(k)] = names(e)
		}
		return out
	}
	vals := func(v any) []any {
		out := make([]any, 0, len(abs.Seq(v))+3)
		for _, e := range abs.Seq(v) {
			out = append(out, abs.ValueGo(e))
		}
		return out
	}
	for f, v := range m {
		switch f {
		case "type":
			out.Type = v.(string)
		case "types":
			out.Types = make([]string, 0, len(abs.Seq(v))+3)
			for _, e := range abs.Seq(v) {
				out.Types = append(out.Types, e.(string))
			}
		case "enum":
			out.Enum = vals(v)
		case "examples":
			out.Examples = vals(v)
		case "const":
			c := abs.ValueGo(v)
			out.Const = &c
		case "default":
			out.Default = json.RawMessage(abs.ValueJSON(v))
		case "multipleOf":
			out.MultipleOf = num(v)
		case "minimum":
			out.Minimum = num(v)
		case "maximum":
			out.Maximum = num(v)
		case "exclusiveMinimum":
			out.ExclusiveMinimum = num(v)
		case "exclusiveMaximum":
			out.ExclusiveMaximum = num(v)
		case "minLength":
			out.MinLength = ip(v)
		case "maxLength":
			out.MaxLength = ip(v)
		case "minItems":
			out.MinItems = ip(v)
		case "maxItems":
			out.MaxItems = ip(v)
		case "minContains":
			out.MinContains = ip(v)
		case "maxContains":
			out.MaxContains = ip(v)
		case "minProperties":
			out.MinProperties = ip(v)
		case "maxProperties":
			out.MaxProperties = ip(v)
		case "pattern":
			out.Pattern = abs.Pat(v.(string))
		case "uniqueItems":
			out.UniqueItems = v.(bool)
		case "deprecated":
			out.Deprecated = v.(bool)
		case "readOnly":
			out.ReadOnly = v.(bool)
		case "writeOnly":
			out.WriteOnly = v.(bool)
		case "prefixItems":
			out.PrefixItems = seqS(v)
		case "itemsArray":
			out.ItemsArray = seqS(v)
		case "allOf":
			out.AllOf = seqS(v)
		case "anyOf":
			out.AnyOf = seqS(v)
		case "oneOf":
			out.OneOf = seqS(v)
		case "items":
			out.Items = schemaGo(v)
		case "additionalItems":
			out.AdditionalItems = schemaGo(v)
		case "contains":
			out.Contains = schemaGo(v)
		case "unevaluatedItems":
			out.UnevaluatedItems = schemaGo(v)
		case "additionalProperties":
			out.AdditionalProperties = schemaGo(v)
		case "propertyNames":
			out.PropertyNames = schemaGo(v)
		case "unevaluatedProperties":
			out.UnevaluatedProperties = schemaGo(v)
		case "not":
			out.Not = schemaGo(v)
		case "if":
			out.If = schemaGo(v)
		case "then":
			out.Then = schemaGo(v)
		case "else":
			out.Else = schemaGo(v)
		case "contentSchema":
			out.ContentSchema = schemaGo(v)
		case "properties":
			out.Properties = mapS(v, abs.Str)
		case "patternProperties":
			out.PatternProperties = mapS(v, abs.Pat)
		case "dependentSchemas":
			out.DependentSchemas = mapS(v, abs.Str)
		case "depSchemas":
			out.DependencySchemas = mapS(v, abs.Str)
		case "defs":
			out.Defs = mapS(v, abs.Str)
		case "definitions":
			out.Definitions = mapS(v, abs.Str)
		case "required":
			out.Required = names(v)
		case "dependentRequired":
			out.DependentRequired = mapNames(v)
		case "depStrings":
			out.DependencyStrings = mapNames(v)
		case "propertyOrder":
			out.PropertyOrder = names(v)
		case "ref":
			out.Ref = abs.RefText(v)
		case "dynamicRef":
			out.DynamicRef = abs.RefText(v)
		case "id":
			out.ID = abs.IDText(v)
		case "anchor":
			out.Anchor = abs.Str(v.(string))
		case "dynamicAnchor":
			out.DynamicAnchor = abs.Str(v.(string))
		case "schema":
			out.Schema = v.(string)
		case "comment":
			out.Comment = v.(string)
		case "title":
			out.Title = v.(string)
		case "description":
			out.Description = v.(string)
		case "format":
			out.Format = v.(string)
		case "contentEncoding":
			out.ContentEncoding = v.(string)
		case "contentMediaType":
			out.ContentMediaType = v.(string)
		case "vocabulary":
			out.Vocabulary = map[string]bool{}
			for k, e := range abs.Obj(v) {
				out.Vocabulary[k] = e.(bool)
			}
		case "extra":
			out.Extra = map[string]any{}
			for k, e := range abs.Obj(v) {
				out.Extra[abs.Str(k)] = abs.ValueGo(e)
			}
		default:
			panic(fmt.Sprintf("schemaGo: unknown field %q", f))
		}
	}
	return out
}

// topLevelKeys returns the keys of a JSON object in document order.
func objectKeys(data []byte) ([]string, error) {
	dec := json.NewDecoder(bytesReader(data))
	tok, err := dec.Token()
	if err != nil {
		return nil, err
	}
	if d, ok := tok.(json.Delim); !ok || d != '{' {
		return nil, fmt.Errorf("not an object: %s", strconv.Quote(string(data)))
	}
	var keys []string
	for dec.More() {
		tok, err := dec.Token()
		if err != nil {
			return nil, err
		}
		keys = append(keys, tok.(string))
		var skip json.RawMessage
		if err := dec.Decode(&skip); err != nil {
			return nil, err
		}
	}
	return keys, nil
}
