package main

import (
	"bytes"
	"encoding/json"
	"io"
	"math/big"
	"reflect"
	"strings"

	"github.com/google/jsonschema-go/jsonschema"
	"verif/harness/abs"
)

func bytesReader(b []byte) io.Reader { return bytes.NewReader(b) }

func init() {
	families["order"] = &Family{Run: runOrder}
}

// Family "order" (C19): CASE {"props": [names], "order": [names], "exp": [names] | ["!error"]}
func runOrder(hdr Header, c any, src string) CaseResult {
	cm := abs.Obj(c)
	res := CaseResult{Evals: 1}
	props := map[string]*jsonschema.Schema{}
	for i, n := range abs.Seq(cm["props"]) {
		// property schemas differ so that a swap of values would be visible too;
		// one of them carries its own nested order
		ps := &jsonschema.Schema{MinLength: jsonschema.Ptr(i)}
		if i == 1 {
			ps.Properties = map[string]*jsonschema.Schema{"y": {}, "x": {}, "B": {}}
			ps.PropertyOrder = []string{"y", "x"}
		}
		props[abs.Str(n.(string))] = ps
	}
	var order []string
	for _, n := range abs.Seq(cm["order"]) {
		order = append(order, abs.Str(n.(string)))
	}
	var want []string
	for _, n := range abs.Seq(cm["exp"]) {
		want = append(want, abs.Str(n.(string)))
	}
	s := &jsonschema.Schema{Type: "object", Properties: props, PropertyOrder: order,
		// draft-07 dependencies of both forms in one schema (they share ONE "dependencies" object; every
		// array-form name sorts after every schema-form name here): same bytes every time
		DependencySchemas: map[string]*jsonschema.Schema{"card": {}, "a": {Type: "null"}},
		DependencyStrings: map[string][]string{"email": {"x"}, "phone": {}, "zip": {"y", "x"}, "web": {"z"}},
		// unknown keywords, some equal up to letter case: "the same Schema value always marshals to the same bytes"
		// covers them as well (repeated marshaling below)
		Extra: map[string]any{"x-Order": 1.0, "x-order": 2.0, "X-ORDER": 3.0, "zz": true, "x-list": []any{"b", "a"}}}
	kb, _ := json.Marshal(map[string]any{"props": cm["props"], "order": cm["order"]})
	res.Key = string(kb)
	res.Nontrivial = len(props) > 1 || len(want) == 1 && want[0] == "!error"
	first, err := json.Marshal(s)
	wantErr := len(want) == 1 && want[0] == "!error"
	conc := map[string]any{"properties": abs.SortedKeys(toAnyMap(props)), "PropertyOrder": order}
	if wantErr {
		if err == nil {
			res.Failures = append(res.Failures, Failure{Kind: "order", Source: src, Abstract: c, Concrete: conc,
				Expected: "Marshal rejects a duplicate PropertyOrder entry", Got: string(first)})
		}
		res.Sample = map[string]any{"schema": conc, "expect": "error"}
		return res
	}
	if err != nil {
		res.Failures = append(res.Failures, Failure{Kind: "order", Source: src, Abstract: c, Concrete: conc,
			Expected: want, Got: err.Error()})
		return res
	}
	var top map[string]json.RawMessage
	if err := json.Unmarshal(first, &top); err != nil {
		panic(err)
	}
	got, err := objectKeys(top["properties"])
	if err != nil {
		panic(err)
	}
	if len(got) == 0 && len(want) == 0 {
		got, want = nil, nil
	}
	if !reflect.DeepEqual(got, want) {
		res.Failures = append(res.Failures, Failure{Kind: "order", Source: src, Abstract: c, Concrete: conc,
			Expected: want, Got: got})
		return res
	}
	// a property whose schema is absent (a nil *Schema, what {"properties":{"x":null}} unmarshals to) is still a
	// property: it keeps its place in the order and is written as null
	if len(props) >= 1 {
		names := abs.Seq(cm["props"])
		props2 := map[string]*jsonschema.Schema{}
		for k, v := range props {
			props2[k] = v
		}
		props2[abs.Str(names[0].(string))] = nil
		if len(names) >= 3 {
			props2[abs.Str(names[2].(string))] = nil
		}
		s2 := &jsonschema.Schema{Type: "object", Properties: props2, PropertyOrder: order}
		res.Evals++
		if b2, err := json.Marshal(s2); err != nil {
			res.Failures = append(res.Failures, Failure{Kind: "order", Source: src, Abstract: c, Concrete: map[string]any{"schema": conc, "nil_valued": names[0]},
				Expected: want, Got: err.Error()})
			return res
		} else {
			var top2 map[string]json.RawMessage
			json.Unmarshal(b2, &top2)
			got2, _ := objectKeys(top2["properties"])
			if !reflect.DeepEqual(got2, want) {
				res.Failures = append(res.Failures, Failure{Kind: "order", Source: src, Abstract: c,
					Concrete: map[string]any{"schema": conc, "nil_valued": names[0]}, Expected: want, Got: got2})
				return res
			}
		}
	}
	if len(props) >= 2 {
		// nested schema honours its own order
		var keys []string
		for _, k := range abs.Seq(cm["props"]) {
			keys = append(keys, abs.Str(k.(string)))
		}
		var pm map[string]json.RawMessage
		json.Unmarshal(top["properties"], &pm)
		var inner map[string]json.RawMessage
		json.Unmarshal(pm[keys[1]], &inner)
		nk, _ := objectKeys(inner["properties"])
		if !reflect.DeepEqual(nk, []string{"y", "x", "B"}) {
			res.Failures = append(res.Failures, Failure{Kind: "order-nested", Source: src, Abstract: c, Concrete: conc,
				Expected: []string{"y", "x", "B"}, Got: nk})
			return res
		}
	}
	// two PropertyOrder slices sharing one backing array (the nested one is a prefix of the parent's,
	// with spare capacity): marshaling must neither write into it nor depend on it
	if len(order) >= 2 && len(props) >= 1 {
		shared := make([]string, len(order), len(order)+4)
		copy(shared, order)
		inner := &jsonschema.Schema{Properties: map[string]*jsonschema.Schema{shared[0]: {}, "zz": {}, "aa": {}}, PropertyOrder: shared[:1]}
		ps := map[string]*jsonschema.Schema{}
		for k, v := range props {
			ps[k] = v
		}
		var firstKey string
		for _, k := range abs.SortedKeys(toAnyMap(props)) {
			firstKey = k
			break
		}
		ps[firstKey] = inner
		outer := &jsonschema.Schema{Type: "object", Properties: ps, PropertyOrder: shared}
		fp := dump(outer)
		o1, e1 := json.Marshal(outer)
		o2, e2 := json.Marshal(outer)
		res.Evals += 2
		if e1 != nil || e2 != nil || !bytes.Equal(o1, o2) || dump(outer) != fp {
			res.Failures = append(res.Failures, Failure{Kind: "order-aliasing", Source: src, Abstract: c, Concrete: conc,
				Expected: "marshaling twice gives the same bytes and leaves PropertyOrder (shared backing array) untouched: " + string(o1),
				Got:      string(o2) + " / " + dump(outer.PropertyOrder)})
			return res
		}
		var t2 map[string]json.RawMessage
		json.Unmarshal(o1, &t2)
		gk, _ := objectKeys(t2["properties"])
		if !reflect.DeepEqual(gk, want) {
			res.Failures = append(res.Failures, Failure{Kind: "order-aliasing", Source: src, Abstract: c, Concrete: conc, Expected: want, Got: gk})
			return res
		}
	}
	// a REJECTED marshal in between (same property names, all listed, then a property whose nested schema has a
	// duplicate PropertyOrder entry): the error is the specified outcome, and what the failed call got through
	// before failing must not show in the marshals of s that follow
	{
		ps := map[string]*jsonschema.Schema{}
		for k, v := range props {
			ps[k] = v
		}
		ps["zzbad"] = &jsonschema.Schema{Properties: map[string]*jsonschema.Schema{"q": {}}, PropertyOrder: []string{"q", "q"}}
		po := append(abs.SortedKeys(toAnyMap(props)), "zzbad")
		res.Evals++
		if pb, perr := json.Marshal(&jsonschema.Schema{Type: "object", Properties: ps, PropertyOrder: po}); perr == nil {
			res.Failures = append(res.Failures, Failure{Kind: "order", Source: src, Abstract: c,
				Concrete: map[string]any{"properties": abs.SortedKeys(toAnyMap(ps)), "PropertyOrder": po, "nested PropertyOrder of zzbad": []string{"q", "q"}},
				Expected: "Marshal rejects a duplicate PropertyOrder entry (nested schema)", Got: string(pb)})
			return res
		}
	}
	// determinism under randomised map iteration
	for i := 0; i < 30; i++ {
		res.Evals++
		again, err := json.Marshal(s)
		if err != nil || !bytes.Equal(again, first) {
			res.Failures = append(res.Failures, Failure{Kind: "nondeterministic", Source: src, Abstract: c, Concrete: conc,
				Expected: string(first), Got: string(again)})
			return res
		}
	}
	res.Sample = map[string]any{"schema": conc, "key_order": got}
	return res
}

func toAnyMap(m map[string]*jsonschema.Schema) map[string]any {
	out := map[string]any{}
	for k := range m {
		out[k] = nil
	}
	return out
}

func init() {
	families["roundtrip"] = &Family{Run: runRoundTrip}
}

const d7URI = "http://json-schema.org/draft-07/schema#"

func verdictVector(s *jsonschema.Schema, insts []any) ([]bool, error) {
	rs, err := s.Resolve(nil)
	if err != nil {
		return nil, err
	}
	out := make([]bool, len(insts))
	for i, in := range insts {
		out[i] = rs.Validate(abs.ValueGo(in)) == nil
	}
	return out, nil
}

// Family "roundtrip" (C05): CASE {"s": schema value, "dr", "exp": verdicts, "keys": [fields Marshal must emit]}
func runRoundTrip(hdr Header, c any, src string) CaseResult {
	cm := abs.Obj(c)
	insts := abs.Seq(hdr["INSTS"])
	res := CaseResult{}
	s := schemaGo(cm["s"])
	wantKeys := map[string]bool{}
	for _, k := range abs.Seq(cm["keys"]) {
		if k.(string) == "extra" {
			for ek := range abs.Obj(abs.Obj(cm["s"])["extra"]) {
				wantKeys[abs.Str(ek)] = true
			}
			continue
		}
		wantKeys[abs.KW(k.(string))] = true
	}
	if cm["dr"] == "d7" {
		s.Schema = d7URI
		wantKeys["$schema"] = true
	}
	fail := func(kind string, exp, got any) CaseResult {
		res.Failures = append(res.Failures, Failure{Kind: kind, Source: src, Abstract: c, Expected: exp, Got: got})
		return res
	}
	b1, err := json.Marshal(s)
	res.Evals = 1
	if cm["marshal"] == "err" {
		// an Extra key named like a real keyword, here or below: no document has the value's meaning
		res.Key = string(mustJSON(cm["s"]))
		res.Nontrivial = true
		if err == nil {
			r := fail("marshal-accepts-keyword-in-extra", "Marshal refuses a Schema value whose Extra has a key named like a keyword", string(b1))
			r.Failures[len(r.Failures)-1].Concrete = map[string]any{"schema_value": dumpShape(s), "marshaled": json.RawMessage(b1)}
			return r
		}
		res.Sample = map[string]any{"schema_value": dumpShape(s), "expect": "Marshal error", "got": err.Error()}
		return res
	}
	if err != nil {
		return fail("marshal", "Marshal succeeds", err.Error())
	}
	res.Key = string(b1)
	conc := json.RawMessage(b1)
	// every keyword of the value (including unknown ones) is kept
	if len(b1) > 0 && b1[0] == '{' {
		keys, err := objectKeys(b1)
		if err != nil {
			panic(err)
		}
		got := map[string]bool{}
		for _, k := range keys {
			got[k] = true
		}
		if !reflect.DeepEqual(got, wantKeys) {
			r := fail("keys", abs.SortedKeys(boolMap(wantKeys)), keys)
			r.Failures[len(r.Failures)-1].Concrete = conc
			return r
		}
	}
	var s2 jsonschema.Schema
	if err := json.Unmarshal(b1, &s2); err != nil {
		return fail("unmarshal", "Unmarshal accepts Marshal's output "+string(b1), err.Error())
	}
	b2, err := json.Marshal(&s2)
	if err != nil {
		return fail("marshal2", "second Marshal succeeds", err.Error())
	}
	if !bytes.Equal(b1, b2) {
		// PropertyOrder is not part of the document: after a round trip only the JSON value is the same
		var j1, j2 any
		json.Unmarshal(b1, &j1)
		json.Unmarshal(b2, &j2)
		if !strings.Contains(string(mustJSON(cm["s"])), "propertyOrder") || !reflect.DeepEqual(j1, j2) {
			return fail("not-idempotent", string(b1), string(b2))
		}
	}
	// same meaning: verdict vectors of the value, of its round trip, and the specification's
	v1, err := verdictVector(s, insts)
	if err != nil {
		return fail("resolve", "Resolve accepts the schema value "+string(b1), err.Error())
	}
	v2, err := verdictVector(&s2, insts)
	if err != nil {
		return fail("resolve2", "Resolve accepts the round-tripped schema "+string(b1), err.Error())
	}
	exp := abs.Seq(cm["exp"])
	sawT, sawF := false, false
	for i := range insts {
		res.Evals += 2
		want := exp[i].(string) == "T"
		if want {
			sawT = true
		} else {
			sawF = true
		}
		if v1[i] != v2[i] || v1[i] != want {
			r := fail("meaning", map[string]any{"instance": json.RawMessage(abs.ValueJSON(insts[i])), "valid": want},
				map[string]any{"schema_value": v1[i], "after_round_trip": v2[i]})
			r.Failures[len(r.Failures)-1].Concrete = conc
			return r
		}
	}
	res.Nontrivial = sawT && sawF
	res.Sample = map[string]any{"marshaled": conc}
	return res
}

func boolMap(m map[string]bool) map[string]any {
	out := map[string]any{}
	for k := range m {
		out[k] = nil
	}
	return out
}

func init() {
	families["rawdoc"] = &Family{Run: runRawDoc}
}

var rawDocInsts = []string{`null`, `0`, `1`, `2.5`, `100`, `""`, `"a"`, `"abc"`, `true`, `[]`, `[1]`, `[1,1]`, `[null,"a",3]`, `{}`, `{"a":1}`, `{"a":"x","b":2,"c":null}`}

// Family "rawdoc" (C05, document side): CASE {"doc": text, "norm": text}:
// Marshal(Unmarshal(doc)) equals norm as a JSON value, a second round trip is
// byte-identical, and the verdicts of doc and of its re-marshaled form agree.
func runRawDoc(hdr Header, c any, src string) CaseResult {
	cm := abs.Obj(c)
	doc, norm := cm["doc"].(string), cm["norm"].(string)
	res := CaseResult{Evals: 1, Key: doc, Nontrivial: true}
	fail := func(kind string, exp, got any) CaseResult {
		res.Failures = append(res.Failures, Failure{Kind: kind, Source: src, Abstract: c, Concrete: json.RawMessage(doc), Expected: exp, Got: got})
		return res
	}
	var s jsonschema.Schema
	if err := json.Unmarshal([]byte(doc), &s); err != nil {
		if feat, _ := cm["feat"].(string); feat != "" {
			// a refusal that is a KNOWN finding of the property named in the case (for the other properties the
			// acceptance of this document is open)
			if pf, _ := cm["featprop"].(string); pf == propID {
				res.Failures = append(res.Failures, Failure{Kind: "unmarshal", Source: src, Abstract: c, Concrete: json.RawMessage(doc),
					Expected: "Unmarshal accepts the document", Got: err.Error(), Features: []string{feat}, Instance: doc + "|" + numRun.ReplaceAllString(err.Error(), "#")})
			}
			return res
		}
		if opt, _ := cm["opt"].(bool); opt {
			// acceptance is left open for this document; a refusal is one of the two specified outcomes
			res.Sample = map[string]any{"document": json.RawMessage(doc), "unmarshal": err.Error()}
			return res
		}
		return fail("unmarshal", "Unmarshal accepts the document", err.Error())
	}
	b1, err := json.Marshal(&s)
	if err != nil {
		return fail("marshal", "Marshal succeeds", err.Error())
	}
	var got, want any
	d1 := json.NewDecoder(bytes.NewReader(b1))
	d1.UseNumber()
	d1.Decode(&got)
	d2 := json.NewDecoder(strings.NewReader(norm))
	d2.UseNumber()
	d2.Decode(&want)
	if !jsonSame(got, want) {
		return fail("normal-form", json.RawMessage(norm), json.RawMessage(b1))
	}
	var s2 jsonschema.Schema
	if err := json.Unmarshal(b1, &s2); err != nil {
		return fail("unmarshal2", "Unmarshal accepts Marshal's output", err.Error())
	}
	b2, _ := json.Marshal(&s2)
	if !bytes.Equal(b1, b2) {
		return fail("not-idempotent", string(b1), string(b2))
	}
	r1, e1 := s.Resolve(nil)
	r2, e2 := s2.Resolve(nil)
	if (e1 == nil) != (e2 == nil) {
		return fail("meaning", errText(e1), errText(e2))
	}
	if e1 == nil {
		for _, it := range rawDocInsts {
			var v any
			json.Unmarshal([]byte(it), &v)
			res.Evals += 2
			if (r1.Validate(v) == nil) != (r2.Validate(v) == nil) {
				return fail("meaning", "same verdict before and after the round trip for "+it, "differs")
			}
		}
	}
	res.Sample = map[string]any{"document": json.RawMessage(doc), "marshaled": json.RawMessage(b1)}
	return res
}

// jsonSame compares decoded JSON values; numbers by mathematical value.
func jsonSame(a, b any) bool {
	switch x := a.(type) {
	case json.Number:
		y, ok := b.(json.Number)
		if !ok {
			return false
		}
		rx, ok1 := new(big.Rat).SetString(x.String())
		ry, ok2 := new(big.Rat).SetString(y.String())
		if ok1 && ok2 && rx.Cmp(ry) == 0 {
			return true
		}
		// Schema numbers are float64 values (encoding/json's decoding); Marshal writes the shortest text that
		// denotes the SAME float64, which for a magnitude beyond 2^53 need not be the same decimal digits
		// (2^64 is written 18446744073709552000). Two texts are the same JSON number here iff they are the same float64.
		fx, e1 := x.Float64()
		fy, e2 := y.Float64()
		return e1 == nil && e2 == nil && fx == fy && new(big.Rat).SetFloat64(fx) != nil && (ok1 && ok2) && func() bool {
			// only beyond the range where float64 is exact on integers; below it the digits must agree
			lim := new(big.Rat).SetFloat64(9007199254740992)
			ax := new(big.Rat).Abs(rx)
			return ax.Cmp(lim) > 0
		}()
	case map[string]any:
		y, ok := b.(map[string]any)
		if !ok || len(x) != len(y) {
			return false
		}
		for k, v := range x {
			w, ok := y[k]
			if !ok || !jsonSame(v, w) {
				return false
			}
		}
		return true
	case []any:
		y, ok := b.([]any)
		if !ok || len(x) != len(y) {
			return false
		}
		for i := range x {
			if !jsonSame(x[i], y[i]) {
				return false
			}
		}
		return true
	}
	return reflect.DeepEqual(a, b)
}
