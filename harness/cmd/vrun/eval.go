package main

import (
	"encoding/json"
	"fmt"
	"math"
	"net/url"
	"reflect"
	"sort"
	"sync"

	"github.com/google/jsonschema-go/jsonschema"
	"verif/harness/abs"
)

// A universe is what Resolve.tla calls U: docs[0] is the root document (its uri
// is the BaseURI option), the others are served by the Loader under their uri.
type universe struct {
	rootJSON string
	baseURI  string
	remote   map[string]string             // uri text -> document JSON
	faults   map[string]bool               // uri text -> loader returns an error
	docURIs  []string                      // docs[i].uri as text (index 0 = the root document)
	rootObj  *jsonschema.Schema            // the object Resolve was called on
	served   map[string]*jsonschema.Schema // uri text -> the object the Loader handed out
}

func universeOf(c map[string]any) *universe {
	u := &universe{remote: map[string]string{}, faults: map[string]bool{}}
	if s, ok := c["s"]; ok {
		u.rootJSON = abs.SchemaJSON(s)
		return u
	}
	um := abs.Obj(c["u"])
	docs := abs.Seq(um["docs"])
	for i, d := range docs {
		dm := abs.Obj(d)
		uri := abs.URIText(dm["uri"])
		u.docURIs = append(u.docURIs, uri)
		if i == 0 {
			u.rootJSON = abs.SchemaJSON(dm["s"])
			u.baseURI = uri
		} else {
			u.remote[uri] = abs.SchemaJSON(dm["s"])
		}
	}
	for _, f := range abs.Seq(um["faults"]) {
		u.faults[abs.URIText(f)] = true
	}
	return u
}

type loadLog struct {
	mu    sync.Mutex
	calls []string
}

func (u *universe) loader(log *loadLog) jsonschema.Loader {
	return func(uri *url.URL) (*jsonschema.Schema, error) {
		key := uri.String()
		log.mu.Lock()
		log.calls = append(log.calls, key)
		log.mu.Unlock()
		if u.faults[key] {
			return nil, fmt.Errorf("verif loader: injected fault for %s", key)
		}
		doc, ok := u.remote[key]
		if !ok {
			return nil, fmt.Errorf("verif loader: no document at %s", key)
		}
		var s jsonschema.Schema
		if err := json.Unmarshal([]byte(doc), &s); err != nil {
			return nil, fmt.Errorf("verif loader: %s: %w", key, err)
		}
		log.mu.Lock()
		if u.served == nil {
			u.served = map[string]*jsonschema.Schema{}
		}
		u.served[key] = &s
		log.mu.Unlock()
		return &s, nil
	}
}

// resolve runs the route the properties anchor: json.Unmarshal -> Resolve.
func (u *universe) resolve(log *loadLog) (*jsonschema.Resolved, error, string) {
	var s jsonschema.Schema
	if err := json.Unmarshal([]byte(u.rootJSON), &s); err != nil {
		return nil, err, "unmarshal"
	}
	opts := &jsonschema.ResolveOptions{BaseURI: u.baseURI}
	if len(u.remote) > 0 || len(u.faults) > 0 {
		opts.Loader = u.loader(log)
	}
	if u.baseURI == "" && opts.Loader == nil {
		opts = nil // "default values are used": the configuration without options at all
	}
	u.rootObj = &s
	rs, err := s.Resolve(opts)
	if err != nil {
		return nil, err, "resolve"
	}
	return rs, nil, ""
}

func (u *universe) concrete() map[string]any {
	m := map[string]any{"root": json.RawMessage(u.rootJSON)}
	if u.baseURI != "" {
		m["baseURI"] = u.baseURI
	}
	if len(u.remote) > 0 {
		r := map[string]any{}
		for k, v := range u.remote {
			r[k] = json.RawMessage(v)
		}
		m["loader"] = r
	}
	return m
}

// Family "eval": a schema (or a universe) and a verdict vector over the
// instance pool of the file's INSTS header.
//
//	CASE {"s": schema | "u": universe, "exp": ["T"|"F"|"x", ...], "res": "ok"|"err"}
func init() {
	families["eval"] = &Family{Run: runEval, Describe: func(c any) any { return map[string]any{"schema": universeOf(abs.Obj(c)).concrete()} }}
}

func runEval(hdr Header, c any, src string) CaseResult {
	res := runEvalCase(hdr, c, src)
	// a case may name the known finding its universe exhibits (feat): every failure on it carries the name, and
	// the instance is the kind of failure with what was observed (numbers blanked)
	if fs := abs.Seq(abs.Obj(c)["feat"]); len(fs) > 0 {
		for i := range res.Failures {
			for _, f := range fs {
				res.Failures[i].Features = append(res.Failures[i].Features, f.(string))
			}
			res.Failures[i].Instance = numRun.ReplaceAllString(fmt.Sprint(res.Failures[i].Got), "#")
			if len(res.Failures[i].Instance) > 200 {
				res.Failures[i].Instance = res.Failures[i].Instance[:200]
			}
		}
	}
	return res
}

func runEvalCase(hdr Header, c any, src string) CaseResult {
	cm := abs.Obj(c)
	insts := abs.Seq(hdr["INSTS"])
	if li, ok := cm["insts"]; ok { // a case may carry its own instances
		insts = abs.Seq(li)
	}
	exp := abs.Seq(cm["exp"])
	u := universeOf(cm)
	res := CaseResult{Key: u.rootJSON + "|" + u.baseURI}
	if len(u.remote) > 0 {
		rk, _ := json.Marshal(u.remote)
		res.Key += string(rk)
	}
	log := &loadLog{}
	rs, err, stage := u.resolve(log)
	wantRes, _ := cm["res"].(string)
	if wantRes == "" {
		wantRes = "ok"
	}
	res.Evals = 1
	if err != nil {
		if f := checkLoads(u, log, nil, src, c); f != nil {
			res.Failures = append(res.Failures, *f)
		}
		if wantRes == "err" || wantRes == "?" {
			res.Nontrivial = true
			res.Sample = map[string]any{"schema": u.concrete(), "expect": "Resolve error", "got": err.Error()}
			return res
		}
		res.Failures = append(res.Failures, Failure{Kind: stage, Source: src, Abstract: c, Concrete: u.concrete(),
			Expected: "schema accepted", Got: err.Error()})
		return res
	}
	if wantRes == "err" {
		res.Failures = append(res.Failures, Failure{Kind: "resolve", Source: src, Abstract: c, Concrete: u.concrete(),
			Expected: "Resolve returns an error", Got: "nil error"})
		return res
	}
	if wantRes == "?" {
		// no prediction at all (families outside every property's reading of the documents): every call is still made -
		// it has to come back with a value or an error (the runner observes panics and hangs)
		for _, in := range insts {
			var inst any
			json.Unmarshal([]byte(abs.ValueJSON(in)), &inst)
			res.Evals++
			rs.Validate(inst)
		}
		res.Nontrivial = true
		res.Sample = map[string]any{"schema": u.concrete(), "expect": "a result (no prediction)"}
		return res
	}
	if f := checkLoads(u, log, cm, src, c); f != nil {
		res.Failures = append(res.Failures, *f)
	}
	// the resolver's final table against L0: every reference of every needed document points at exactly the
	// designated Schema object, and is marked dynamic exactly when L0 says so
	if f := checkTargets(u, rs, cm, src, c); f != nil {
		res.Failures = append(res.Failures, *f)
	}
	res.Evals += len(abs.Seq(cm["targets"]))
	sawT, sawF := false, false
	var sampleInst []any
	for i, e := range exp {
		es := e.(string)
		if es == "x" || es == "?" {
			res.Skipped++
			continue
		}
		ij := abs.ValueJSON(insts[i])
		var inst any
		if err := json.Unmarshal([]byte(ij), &inst); err != nil {
			panic(err)
		}
		verr := rs.Validate(inst)
		res.Evals++
		want := es == "T"
		if want {
			sawT = true
		} else {
			sawF = true
		}
		if (verr == nil) != want {
			got := "nil"
			if verr != nil {
				got = verr.Error()
			}
			res.Failures = append(res.Failures, Failure{Kind: "verdict", Source: src, Abstract: c,
				Concrete: map[string]any{"schema": u.concrete(), "instance": json.RawMessage(ij)},
				Expected: map[string]any{"valid": want}, Got: got})
			if len(res.Failures) >= 3 {
				break
			}
		}
		// the same JSON value spelled "-0" wherever the document has 0 (what encoding/json decodes to the
		// float64 negative zero): zero has one JSON value, the verdict must not change
		for _, lim := range []int{-1, 1} {
			nz, changed := negZeros(inst, lim)
			if !changed {
				break
			}
			res.Evals++
			if verr2 := rs.Validate(nz); (verr2 == nil) != want {
				res.Failures = append(res.Failures, Failure{Kind: "verdict", Source: src, Abstract: c,
					Concrete: map[string]any{"schema": u.concrete(), "instance": json.RawMessage(ij),
						"spelling": map[int]string{-1: "every 0 written -0", 1: "the first 0 written -0"}[lim]},
					Expected: map[string]any{"valid": want}, Got: errText(verr2)})
			}
		}
		if len(sampleInst) < 4 {
			sampleInst = append(sampleInst, map[string]any{"instance": json.RawMessage(ij), "valid": want})
		}
	}
	// history independence: the same instances once more on the same Resolved, in the opposite order
	// (anything a Validate call left behind in the Resolved would now meet a different successor)
	if len(res.Failures) == 0 {
		for i := len(exp) - 1; i >= 0; i-- {
			es := exp[i].(string)
			if es == "x" || es == "?" {
				continue
			}
			ij := abs.ValueJSON(insts[i])
			var inst any
			json.Unmarshal([]byte(ij), &inst)
			res.Evals++
			if verr := rs.Validate(inst); (verr == nil) != (es == "T") {
				res.Failures = append(res.Failures, Failure{Kind: "verdict-history", Source: src, Abstract: c,
					Concrete: map[string]any{"schema": u.concrete(), "instance": json.RawMessage(ij),
						"history": "all instances of the case validated in order, then again in reverse order, on one Resolved"},
					Expected: map[string]any{"valid": es == "T"}, Got: errText(verr)})
				break
			}
		}
	}
	// a decorated schema (C18: "for every instance"): instances that no JSON decoding produces - byte slices, typed
	// containers, named strings, json.Number - get the same verdict from the decorated and the undecorated schema
	if base, ok := cm["base"]; ok && len(res.Failures) == 0 {
		ub := &universe{remote: u.remote, faults: u.faults, baseURI: u.baseURI, docURIs: u.docURIs, rootJSON: abs.SchemaJSON(base)}
		if rsb, berr, _ := ub.resolve(&loadLog{}); berr == nil {
			for _, gi := range goShapedInstances() {
				res.Evals += 2
				vd, vb := rs.Validate(gi) == nil, rsb.Validate(gi) == nil
				if vd != vb {
					res.Failures = append(res.Failures, Failure{Kind: "verdict-decoration", Source: src, Abstract: c,
						Concrete: map[string]any{"schema": u.concrete(), "undecorated": json.RawMessage(ub.rootJSON), "instance": fmt.Sprintf("%#v", gi)},
						Expected: map[string]any{"valid (undecorated schema)": vb}, Got: map[string]any{"valid (decorated schema)": vd}})
					break
				}
			}
		}
	}
	res.Nontrivial = sawT && sawF
	res.Sample = map[string]any{"schema": u.concrete(), "verdicts": sampleInst}
	return res
}

type namedText string

func goShapedInstances() []any {
	one := 1
	return []any{
		[]byte("hello"), []byte{1, 2, 3}, []byte{}, []byte{1, 1}, map[string]any{"a": []byte("a")}, map[string]any{"b": []byte{1}},
		map[string][]byte{"a": {1}}, [][]byte{{1}, {1}}, []any{[]byte("a"), "a"}, []any{[]byte{1}}, &[]byte{1, 2},
		json.Number("1"), []string{"a", "ab"}, [2]int{1, 1}, namedText("a"), namedText("ab"), float32(1), uint8(1), &one,
		map[string]int{"a": 1}, map[namedText]any{"a": "a"}, []namedText{"a", "b"}, map[string]any{"a": json.Number("1.0")},
	}
}

// checkLoads compares the Loader call log with the specification: no URI is
// requested twice, the root document is never requested, and (when the
// specification predicts the set) exactly the needed documents are requested.
func checkLoads(u *universe, log *loadLog, cm map[string]any, src string, c any) *Failure {
	seen := map[string]bool{}
	for _, k := range log.calls {
		if seen[k] {
			return &Failure{Kind: "loader-twice", Source: src, Abstract: c, Concrete: u.concrete(),
				Expected: "each URI requested from the Loader at most once", Got: log.calls}
		}
		seen[k] = true
		if k == u.baseURI {
			return &Failure{Kind: "loader-root", Source: src, Abstract: c, Concrete: u.concrete(),
				Expected: "the root document is never requested from the Loader", Got: log.calls}
		}
	}
	if cm == nil {
		return nil
	}
	lv, ok := cm["loads"]
	if !ok {
		return nil
	}
	want := map[string]bool{}
	for _, x := range abs.Seq(lv) {
		want[abs.URIText(x)] = true
	}
	same := len(want) == len(seen)
	for k := range want {
		if !seen[k] {
			same = false
		}
	}
	if !same {
		ws := []string{}
		for k := range want {
			ws = append(ws, k)
		}
		return &Failure{Kind: "loader-set", Source: src, Abstract: c, Concrete: u.concrete(),
			Expected: map[string]any{"loader calls (as a set)": ws}, Got: log.calls}
	}
	return nil
}

// negZeros returns a copy of a decoded JSON value in which every number 0 (limit < 0) or only the
// first `limit` zeros in document order are the float64 negative zero.
func negZeros(v any, limit int) (any, bool) {
	left := limit
	var walk func(v any) (any, bool)
	walk = func(v any) (any, bool) {
		switch x := v.(type) {
		case float64:
			if x == 0 && !math.Signbit(x) && left != 0 {
				left--
				return math.Copysign(0, -1), true
			}
		case []any:
			out, ch := make([]any, len(x)), false
			for i, e := range x {
				n, c := walk(e)
				out[i], ch = n, ch || c
			}
			return out, ch
		case map[string]any:
			out, ch := make(map[string]any, len(x)), false
			keys := make([]string, 0, len(x))
			for k := range x {
				keys = append(keys, k)
			}
			sort.Strings(keys)
			for _, k := range keys {
				n, c := walk(x[k])
				out[k], ch = n, ch || c
			}
			return out, ch
		}
		return v, false
	}
	return walk(v)
}

// goField maps an abstract keyword to the Schema field that holds it.
var goField = map[string]string{
	"items": "Items", "itemsArray": "ItemsArray", "additionalItems": "AdditionalItems", "contains": "Contains",
	"unevaluatedItems": "UnevaluatedItems", "additionalProperties": "AdditionalProperties", "propertyNames": "PropertyNames",
	"unevaluatedProperties": "UnevaluatedProperties", "not": "Not", "if": "If", "then": "Then", "else": "Else",
	"contentSchema": "ContentSchema", "prefixItems": "PrefixItems", "allOf": "AllOf", "anyOf": "AnyOf", "oneOf": "OneOf",
	"properties": "Properties", "patternProperties": "PatternProperties", "dependentSchemas": "DependentSchemas",
	"depSchemas": "DependencySchemas", "defs": "Defs", "definitions": "Definitions",
}

// nodeAt walks an abstract path (SchemaDoc segments) through a Schema object.
func nodeAt(root *jsonschema.Schema, path any) *jsonschema.Schema {
	cur := root
	for _, seg := range abs.Seq(path) {
		if cur == nil {
			return nil
		}
		sm := abs.Obj(seg)
		k := sm["k"].(string)
		fv := reflect.ValueOf(cur).Elem().FieldByName(goField[k])
		if !fv.IsValid() {
			return nil
		}
		switch {
		case sm["i"] != nil:
			i := abs.Int(sm["i"]) - 1
			if fv.Kind() != reflect.Slice || i >= fv.Len() {
				return nil
			}
			cur, _ = fv.Index(i).Interface().(*jsonschema.Schema)
		case sm["n"] != nil:
			name := sm["n"].(string)
			if k == "patternProperties" {
				name = abs.Pat(name)
			} else {
				name = abs.Str(name)
			}
			mv := fv.MapIndex(reflect.ValueOf(name))
			if !mv.IsValid() {
				return nil
			}
			cur, _ = mv.Interface().(*jsonschema.Schema)
		default:
			cur, _ = fv.Interface().(*jsonschema.Schema)
		}
	}
	return cur
}

func (u *universe) docObj(d int) *jsonschema.Schema {
	if d == 1 {
		return u.rootObj
	}
	if d-1 < len(u.docURIs) {
		return u.served[u.docURIs[d-1]]
	}
	return nil
}

// checkTargets compares CASE.targets ([{d, p, kind, t: {d, p}, dyn}]) with the Resolved's own table.
func checkTargets(u *universe, rs *jsonschema.Resolved, cm map[string]any, src string, c any) *Failure {
	for _, e := range abs.Seq(cm["targets"]) {
		em := abs.Obj(e)
		tm := abs.Obj(em["t"])
		from := nodeAt(u.docObj(abs.Int(em["d"])), em["p"])
		want := nodeAt(u.docObj(abs.Int(tm["d"])), tm["p"])
		if from == nil || want == nil {
			continue // the harness cannot locate the node (a document that was never loaded): nothing to compare
		}
		ref, dyn, anchor := rs.VerifRefTarget(from)
		got := ref
		if em["kind"] == "dyn" {
			got = dyn
			if anchor != "" { // re-bound at evaluation time: the table keeps the lexical target separately
				got = rs.VerifDynamicRefInitial(from)
			}
		}
		wantDyn, _ := em["dyn"].(bool)
		if got != want || (em["kind"] == "dyn" && (anchor != "") != wantDyn) {
			gj, _ := json.Marshal(got)
			wj, _ := json.Marshal(want)
			return &Failure{Kind: "ref-target", Source: src, Abstract: c,
				Concrete: map[string]any{"schema": u.concrete(), "reference_at": abs.PathPointer(em["p"]), "in_document": em["d"], "kind": em["kind"]},
				Expected: map[string]any{"designates": json.RawMessage(wj), "at": abs.PathPointer(tm["p"]), "in_document": tm["d"], "dynamic": wantDyn},
				Got:      map[string]any{"resolved_to": json.RawMessage(gj), "same_object": got == want, "dynamic": anchor != ""}}
		}
	}
	return nil
}
