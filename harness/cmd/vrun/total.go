package main

import (
	"encoding/json"
	"errors"
	"fmt"
	"math"
	"net/url"
	"strings"

	"github.com/google/jsonschema-go/jsonschema"
	"verif/harness/abs"
)

// Family "total" (C10): malformed inputs. Every call runs under recover() and a
// deadline (runCase); a panic, a fatal error or a deadline miss is the
// violation. Where the specification predicts "must fail" / "must succeed",
// that is compared too.
func init() {
	families["total"] = &Family{Run: runTotal}
}

var tokText = map[string]string{"S": `"s"`, "T": `"type"`}

var kvText = map[string]string{
	"null": `null`, "true": `true`, "1": `1`, "2.5": `2.5`, "big": `2147483648`, "str": `"a"`,
	"arr": `["a"]`, "arrnum": `[1]`, "obj": `{"a":{}}`, "objnum": `{"a":1}`,
}

func runTotal(hdr Header, c any, src string) CaseResult {
	cm := abs.Obj(c)
	res := CaseResult{Evals: 1, Nontrivial: true}
	kb, _ := json.Marshal(c)
	res.Key = string(kb)
	fail := func(kind string, conc, exp, got any) CaseResult {
		res.Failures = append(res.Failures, Failure{Kind: kind, Source: src, Abstract: c, Concrete: conc, Expected: exp, Got: got})
		return res
	}
	switch {
	case cm["toks"] != nil: // TK
		var parts []string
		for _, t := range abs.Seq(cm["toks"]) {
			ts := t.(string)
			if x, ok := tokText[ts]; ok {
				ts = x
			}
			parts = append(parts, ts)
		}
		text := strings.Join(parts, " ")
		var s jsonschema.Schema
		err := json.Unmarshal([]byte(text), &s)
		if !cm["wf"].(bool) && err == nil {
			return fail("accepts-garbage", text, "Unmarshal returns an error for ill-formed JSON", "nil")
		}
		if err == nil {
			// whatever Unmarshal accepted must be usable without panics
			if rs, rerr := s.Resolve(nil); rerr == nil {
				res.Evals += 3
				rs.Validate(map[string]any{"type": []any{1.0, "s"}})
				rs.Validate("s")
				for _, inst := range []any{map[string]any{}, nil, map[string]any{"s": nil, "type": nil}, []any{nil}, "s"} {
					res.Evals++
					rs.ApplyDefaults(&inst)
				}
			}
			json.Marshal(&s)
		}
		res.Sample = map[string]any{"bytes": text, "well_formed": cm["wf"], "unmarshal_error": errText(err)}
	case cm["k"] != nil: // KV
		text := fmt.Sprintf(`{%q:%s}`, cm["k"].(string), kvText[cm["v"].(string)])
		var s jsonschema.Schema
		err := json.Unmarshal([]byte(text), &s)
		var rerr error
		if err == nil {
			var rs *jsonschema.Resolved
			rs, rerr = s.Resolve(&jsonschema.ResolveOptions{ValidateDefaults: true})
			if rerr == nil {
				res.Evals += 4
				// (numbers also as json.Number, with exponents beyond what exact arithmetic accepts)
				for _, in := range []any{nil, 1.0, "a", []any{1.0, "a"}, map[string]any{"a": 1.0}, json.Number("1e9999999"), json.Number("-1E-9999999"),
					json.Number("1.5"), []any{json.Number("1e9999999"), json.Number("2")}, map[string]any{"a": json.Number("1e9999999")}} {
					rs.Validate(in)
				}
				for _, inst := range []any{map[string]any{}, nil, map[string]any{"a": nil}, []any{nil}, 1.0} {
					res.Evals++
					rs.ApplyDefaults(&inst)
				}
			}
			json.Marshal(&s)
		}
		if cm["reject"].(bool) && err == nil && rerr == nil {
			return fail("accepts-ill-typed", json.RawMessage(text), "Unmarshal or Resolve returns an error", "both nil")
		}
		res.Sample = map[string]any{"document": json.RawMessage(text), "must_reject": cm["reject"], "unmarshal": errText(err)}
	case cm["g"] != nil: // GR
		nodes := map[int]*jsonschema.Schema{1: {Title: "n1"}, 2: {Title: "n2"}, 3: {Title: "n3"}}
		g := abs.Seq(cm["g"])
		for n := 1; n <= 3; n++ {
			slots := abs.Obj(g[n-1])
			for slot, tv := range slots {
				t := abs.Int(tv)
				if t == 0 {
					continue
				}
				switch slot {
				case "not":
					nodes[n].Not = nodes[t]
				case "items":
					nodes[n].Items = nodes[t]
				case "allOf":
					nodes[n].AllOf = append(nodes[n].AllOf, nodes[t])
				case "prop":
					nodes[n].Properties = map[string]*jsonschema.Schema{"k": nodes[t]}
				}
			}
		}
		root := nodes[1]
		switch cm["nilIn"] {
		case "allOf":
			root.AllOf = append(root.AllOf, nil)
		case "properties":
			if root.Properties == nil {
				root.Properties = map[string]*jsonschema.Schema{}
			}
			root.Properties["nil"] = nil
		case "prefixItems":
			root.PrefixItems = []*jsonschema.Schema{nil}
		case "defs":
			root.Defs = map[string]*jsonschema.Schema{"nil": nil}
		}
		rs, err := root.Resolve(nil)
		wantOK := cm["tree"].(bool)
		if (err == nil) != wantOK {
			return fail("graph", c, map[string]any{"Resolve succeeds (the graph is a tree without nil children)": wantOK}, errText(err))
		}
		if err == nil {
			res.Evals += 2
			rs.Validate(map[string]any{"k": []any{1.0}})
			rs.Validate([]any{map[string]any{"k": 1.0}})
			root.CloneSchemas()
		}
		res.Sample = map[string]any{"graph": cm["g"], "nil_in": cm["nilIn"], "is_tree": wantOK}
	case cm["f"] != nil: // BU
		return runBU(cm, res, fail)
	case cm["beh"] != nil: // LD
		return runLD(cm, res, fail)
	}
	return res
}

func runBU(cm map[string]any, res CaseResult, fail func(string, any, any, any) CaseResult) CaseResult {
	f, v, op := cm["f"].(string), cm["v"].(string), cm["op"].(string)
	s := &jsonschema.Schema{}
	opts := &jsonschema.ResolveOptions{}
	switch f {
	case "$id":
		s.ID = v
	case "$ref":
		s.Ref = v
		s.AllOf = []*jsonschema.Schema{{}}
	case "$dynamicRef":
		s.DynamicRef = v
	case "pattern":
		s.Pattern = v
	case "patternProperties":
		s.PatternProperties = map[string]*jsonschema.Schema{v: {}}
	case "$anchor":
		s.Anchor = v
		if v == "dup" {
			s.AllOf = []*jsonschema.Schema{{Anchor: "dup"}}
		}
	case "minimum", "maximum", "exclusiveMinimum", "exclusiveMaximum", "multipleOf":
		x := map[string]float64{"+Inf": math.Inf(1), "-Inf": math.Inf(-1), "NaN": math.NaN(), "-0": math.Copysign(0, -1),
			"5e-324": 5e-324, "1.7976931348623157e308": math.MaxFloat64}[v]
		switch f {
		case "minimum":
			s.Minimum = &x
		case "maximum":
			s.Maximum = &x
		case "exclusiveMinimum":
			s.ExclusiveMinimum = &x
		case "exclusiveMaximum":
			s.ExclusiveMaximum = &x
		case "multipleOf":
			s.MultipleOf = &x
		}
	case "$schema":
		s.Schema = v
	case "baseuri":
		opts.BaseURI = v
	case "conflict":
		switch v {
		case "Type+Types":
			s.Type, s.Types = "string", []string{"null"}
		case "Items+ItemsArray":
			s.Items, s.ItemsArray = &jsonschema.Schema{}, []*jsonschema.Schema{{}}
		case "Defs+Definitions":
			s.Defs, s.Definitions = map[string]*jsonschema.Schema{}, map[string]*jsonschema.Schema{}
		case "DupPropertyOrder":
			s.PropertyOrder = []string{"a", "a"}
		case "DepBoth":
			s.DependencySchemas = map[string]*jsonschema.Schema{"a": {}}
			s.DependencyStrings = map[string][]string{"a": {"b"}}
		case "Vocabulary":
			s.Vocabulary = map[string]bool{"x": true}
		case "ExtraDuplicatesField":
			s.Extra = map[string]any{"type": "string"}
		}
	}
	if f == "default" {
		s.Type, s.Default = "integer", json.RawMessage(`"x"`)
		opts.ValidateDefaults = true
	}
	conc := map[string]any{"field": f, "value": v}
	if at, _ := cm["at"].(string); at != "" {
		// the malformed node below the root, with subschemas after it in every walk order
		conc["at"] = at
		later := func() *jsonschema.Schema { return &jsonschema.Schema{Title: "later", Not: &jsonschema.Schema{}} }
		root := &jsonschema.Schema{Not: later(), Properties: map[string]*jsonschema.Schema{"zz": later()}, Then: later(),
			UnevaluatedProperties: later(), Defs: map[string]*jsonschema.Schema{"zz": later()}}
		switch at {
		case "allOf0":
			root.AllOf = []*jsonschema.Schema{s, later()}
		case "anyOf1":
			root.AnyOf = []*jsonschema.Schema{later(), s, later()}
		case "oneOf0":
			root.OneOf = []*jsonschema.Schema{s}
		case "prefixItems0":
			root.PrefixItems = []*jsonschema.Schema{s, later()}
		case "itemsArray0":
			root.Schema = "http://json-schema.org/draft-07/schema#"
			root.Defs, root.UnevaluatedProperties = nil, nil
			root.ItemsArray = []*jsonschema.Schema{s, later()}
		case "props":
			root.Properties["a"] = s
		case "defs":
			root.Defs["a"] = s
		case "items":
			root.Items = s
		case "notAllOf":
			root.Not = &jsonschema.Schema{AllOf: []*jsonschema.Schema{later(), s}, Then: later()}
		}
		s = root
	}
	switch op {
	case "marshal":
		if _, err := json.Marshal(s); err == nil {
			return fail("accepts-malformed", conc, "Marshal returns an error", "nil")
		}
	default:
		rs, err := s.Resolve(opts)
		if op == "resolve" && err == nil {
			return fail("accepts-malformed", conc, "Resolve returns an error", "nil")
		}
		if err == nil {
			verr := rs.Validate(map[string]any{"a": 1.0})
			rs.Validate("x")
			for _, in := range []any{1.0, 0.0, -1.5, json.Number("1e400"), json.Number("1e9999999"), []any{1.0, "x"}, math.MaxFloat64} {
				rs.Validate(in)
			}
			if op == "validate" && verr == nil {
				return fail("accepts-malformed", conc, "Validate refuses an unsupported $schema", "nil")
			}
		}
		json.Marshal(s)
	}
	res.Sample = conc
	return res
}

func runLD(cm map[string]any, res CaseResult, fail func(string, any, any, any) CaseResult) CaseResult {
	beh := cm["beh"].(string)
	if beh == "nil-root" {
		// the Schema value that holds nothing at all: a nil *Schema (with and without options)
		var nilRoot *jsonschema.Schema
		for _, o := range []*jsonschema.ResolveOptions{nil, {}, {ValidateDefaults: true, BaseURI: "http://h/root.json"}} {
			res.Evals++
			if rs, err := nilRoot.Resolve(o); err == nil {
				rs.Validate(1.0)
				return fail("accepts-malformed", map[string]any{"root": "(*Schema)(nil)"}, "Resolve returns an error", "nil")
			}
		}
		json.Marshal(nilRoot)
		nilRoot.CloneSchemas()
		res.Sample = map[string]any{"behaviour": beh}
		return res
	}
	parse := func(text string) *jsonschema.Schema {
		var s jsonschema.Schema
		if err := json.Unmarshal([]byte(text), &s); err != nil {
			panic(err)
		}
		return &s
	}
	root := parse(`{"properties":{"p":{"$ref":"a.json#t"},"q":{"$ref":"b.json"}}}`)
	docs := map[string]*jsonschema.Schema{}
	var loader jsonschema.Loader = func(u *url.URL) (*jsonschema.Schema, error) {
		if d, ok := docs[u.String()]; ok {
			return d, nil
		}
		return nil, errors.New("not found")
	}
	good := func() *jsonschema.Schema { return parse(`{"$defs":{"t":{"$anchor":"t","type":"integer"}}}`) }
	docs["http://h/a.json"], docs["http://h/b.json"] = good(), good()
	switch beh {
	case "error":
		loader = func(*url.URL) (*jsonschema.Schema, error) { return nil, errors.New("boom") }
	case "nil":
		loader = func(*url.URL) (*jsonschema.Schema, error) { return nil, nil }
	case "wrong-doc":
		docs["http://h/a.json"] = parse(`{"type":"string"}`)
	case "root-itself":
		loader = func(*url.URL) (*jsonschema.Schema, error) { return root, nil }
	case "same-object-two-uris":
		docs["http://h/b.json"] = docs["http://h/a.json"]
	case "self-loop":
		docs["http://h/a.json"] = parse(`{"$defs":{"t":{"$anchor":"t","type":"integer"}},"properties":{"x":{"$ref":"a.json#t"},"y":{"$ref":"a.json"}}}`)
	case "mutual":
		docs["http://h/a.json"] = parse(`{"$defs":{"t":{"$anchor":"t","type":"integer"}},"properties":{"x":{"$ref":"b.json#t"}}}`)
		docs["http://h/b.json"] = parse(`{"$defs":{"t":{"$anchor":"t","type":"integer"}},"properties":{"x":{"$ref":"a.json#t"}}}`)
	case "chain-6", "chain-then-error":
		for i := 0; i < 6; i++ {
			docs[fmt.Sprintf("http://h/c%d.json", i)] = parse(fmt.Sprintf(`{"$defs":{"t":{"$anchor":"t"}},"items":{"$ref":"c%d.json#t"}}`, i+1))
		}
		docs["http://h/c6.json"] = good()
		if beh == "chain-then-error" {
			delete(docs, "http://h/c6.json")
		}
		docs["http://h/b.json"] = parse(`{"$ref":"c0.json"}`)
	case "doc-with-bad-ref":
		docs["http://h/b.json"] = parse(`{"$ref":"#/nowhere"}`)
	case "doc-nil-child":
		docs["http://h/b.json"] = &jsonschema.Schema{AllOf: []*jsonschema.Schema{nil}}
	case "doc-not-tree":
		shared := &jsonschema.Schema{}
		docs["http://h/b.json"] = &jsonschema.Schema{AllOf: []*jsonschema.Schema{shared, shared}}
	case "no-loader":
		loader = nil
	case "in-place-ref-cycle-ok":
		root = parse(`{"$defs":{"n":{"properties":{"next":{"$ref":"#/$defs/n"}}}},"$ref":"#/$defs/n"}`)
	}
	rs, err := root.Resolve(&jsonschema.ResolveOptions{BaseURI: "http://h/root.json", Loader: loader})
	want := cm["res"].(string)
	if (want == "err" && err == nil) || (want == "ok" && err != nil) {
		return fail("loader", beh, want, errText(err))
	}
	if err == nil {
		res.Evals += 2
		rs.Validate(map[string]any{"p": 1.0, "q": map[string]any{"x": 1.0}, "next": map[string]any{"next": 1.0}})
		rs.Validate(map[string]any{"p": "s", "q": []any{[]any{[]any{1.0}}}})
	}
	res.Sample = map[string]any{"loader_behaviour": beh, "resolve": errText(err)}
	return res
}
