package abs

import (
	"encoding/json"
	"fmt"
	"math"
	"reflect"
)

// Defined types used for the "named" representations.
type (
	NamedInt   int
	NamedFloat float64
	NamedStr   string
	NamedKey   string
)

var anyType = reflect.TypeOf((*any)(nil)).Elem()

// BuildRep constructs the Go value a represented abstract value (spec/Reps.tla)
// describes. The result is an `any` ready to hand to Validate / Equal.
func BuildRep(v any) any {
	rv := buildRep(v)
	if !rv.IsValid() {
		return nil
	}
	return rv.Interface()
}

func numRep(n int, rep string) reflect.Value {
	info := P.Numbers[n]
	switch rep {
	case "jsonNumber":
		return reflect.ValueOf(json.Number(info.Exact))
	case "negzero":
		return reflect.ValueOf(math.Copysign(0, -1))
	case "jsonNumberE": // another spelling of the same number
		return reflect.ValueOf(json.Number(info.Exact + "e0"))
	}
	var f float64
	var i int64
	var u uint64
	if info.F64 {
		if err := json.Unmarshal([]byte(info.Text), &f); err != nil {
			panic(err)
		}
	}
	if info.IsInt {
		if _, err := fmt.Sscan(info.Num, &i); err != nil {
			i = 0
		}
		if _, err := fmt.Sscan(info.Num, &u); err != nil {
			u = 0
		}
	}
	switch rep {
	case "float64":
		return reflect.ValueOf(f)
	case "float32":
		return reflect.ValueOf(float32(f))
	case "namedFloat":
		return reflect.ValueOf(NamedFloat(f))
	case "int":
		return reflect.ValueOf(int(i))
	case "int8":
		return reflect.ValueOf(int8(i))
	case "int16":
		return reflect.ValueOf(int16(i))
	case "int32":
		return reflect.ValueOf(int32(i))
	case "int64":
		return reflect.ValueOf(i)
	case "namedInt":
		return reflect.ValueOf(NamedInt(i))
	case "uint":
		return reflect.ValueOf(uint(u))
	case "uint8":
		return reflect.ValueOf(uint8(u))
	case "uint16":
		return reflect.ValueOf(uint16(u))
	case "uint32":
		return reflect.ValueOf(uint32(u))
	case "uint64":
		return reflect.ValueOf(u)
	case "uintptr":
		return reflect.ValueOf(uintptr(u))
	}
	panic("abs.numRep: unknown rep " + rep)
}

// commonType returns the type shared by all values, or `any`.
func commonType(vs []reflect.Value) reflect.Type {
	var t reflect.Type
	for _, v := range vs {
		if !v.IsValid() {
			return anyType
		}
		if t == nil {
			t = v.Type()
		} else if t != v.Type() {
			return anyType
		}
	}
	if t == nil {
		return anyType
	}
	return t
}

func setElem(dst reflect.Value, v reflect.Value) {
	if !v.IsValid() {
		dst.Set(reflect.Zero(dst.Type()))
		return
	}
	dst.Set(v)
}

func buildRep(v any) reflect.Value {
	m := Obj(v)
	rep, _ := m["r"].(string)
	var out reflect.Value
	switch m["t"] {
	case "null":
		out = reflect.Value{}
		if rep == "nilptr" { // a typed nil pointer: also JSON null (stored in an interface it is a NON-nil interface value)
			out = reflect.Zero(reflect.TypeOf((*int)(nil)))
		}
		// null behind two levels of indirection: the outer pointer nil, or the outer pointer set and the inner
		// pointer / interface nil (all of them JSON null; the Go types of each pair are identical)
		switch rep {
		case "nilpp":
			out = reflect.Zero(reflect.TypeOf((**int)(nil)))
		case "ptrnilp":
			out = reflect.ValueOf(new(*int))
		case "nilpany":
			out = reflect.Zero(reflect.TypeOf((*any)(nil)))
		case "ptrnilany":
			out = reflect.ValueOf(new(any))
		}
	case "bool":
		out = reflect.ValueOf(m["b"].(bool))
	case "num":
		if rep == "" {
			rep = "float64"
		}
		out = numRep(Int(m["n"]), rep)
	case "str":
		if rep == "named" {
			out = reflect.ValueOf(NamedStr(Str(m["s"].(string))))
		} else {
			out = reflect.ValueOf(Str(m["s"].(string)))
		}
	case "arr":
		es := Seq(m["e"])
		vs := make([]reflect.Value, len(es))
		for i, e := range es {
			vs[i] = buildRep(e)
		}
		et := anyType
		if rep == "typed" || rep == "array" {
			et = commonType(vs)
		}
		if rep == "array" || rep == "arrayany" {
			out = reflect.New(reflect.ArrayOf(len(vs), et)).Elem()
		} else {
			out = reflect.MakeSlice(reflect.SliceOf(et), len(vs), len(vs))
		}
		for i, e := range vs {
			setElem(out.Index(i), e)
		}
	case "obj":
		mm := Obj(m["m"])
		keys := SortedKeys(mm)
		vs := make([]reflect.Value, len(keys))
		for i, k := range keys {
			vs[i] = buildRep(mm[k])
		}
		et := anyType
		if rep == "typed" {
			et = commonType(vs)
		}
		kt := reflect.TypeOf("")
		if rep == "namedkey" {
			kt = reflect.TypeOf(NamedKey(""))
		}
		if rep == "numberkey" { // json.Number is a string-kind type too: map[json.Number]any
			kt = reflect.TypeOf(json.Number(""))
		}
		out = reflect.MakeMapWithSize(reflect.MapOf(kt, et), len(keys))
		for i, k := range keys {
			ev := vs[i]
			if !ev.IsValid() {
				ev = reflect.Zero(et)
			}
			out.SetMapIndex(reflect.ValueOf(Str(k)).Convert(kt), ev)
		}
	default:
		panic(fmt.Sprintf("abs.buildRep: bad value %v", v))
	}
	for _, w := range Seq(m["w"]) {
		switch w.(string) {
		case "ptr":
			var p reflect.Value
			if out.IsValid() {
				p = reflect.New(out.Type())
				p.Elem().Set(out)
			} else {
				p = reflect.New(anyType) // *any holding nil
			}
			out = p
		case "iface":
			// an interface value can only be observed behind a pointer or inside a
			// container: box it in a *any at the next "ptr"
			box := reflect.New(anyType).Elem()
			if out.IsValid() {
				box.Set(out)
			}
			out = box
		}
	}
	return out
}

// DenJSON renders the JSON value a represented value denotes.
func DenJSON(v any) string { return ValueJSON(v) }
